#!/usr/bin/env python3
"""Sensitivity run: every built-in mutant (vsim/mutants/mutants.py) and every seeded change under
/verif/seeded/<id>/patch.diff is applied to a scratch copy of /repo's working tree (outside /repo
and /verif, removed afterwards) and the quick check of its property must report a VIOLATION.

  tools/sensitivity.py [names...|all] [--out FILE] [--keep]
"""
import json
import os
import shutil
import subprocess
import sys
import time

HERE = os.path.dirname(os.path.dirname(os.path.abspath(__file__)))
sys.path.insert(0, HERE)
from vsim.mutants.mutants import MUTANTS  # noqa: E402

PY = "/venv/bin/python" if os.path.exists("/venv/bin/python") else sys.executable
BASE = os.environ.get("VSIM_SCRATCH", "/tmp/vsim-mut")


def scratch(name):
    d = os.path.join(BASE, name)
    shutil.rmtree(d, ignore_errors=True)
    os.makedirs(d)
    shutil.copytree("/repo/vsg", os.path.join(d, "vsg"), ignore=shutil.ignore_patterns("__pycache__"))
    os.symlink("/repo/tests", os.path.join(d, "tests"))
    return d


def apply_edits(d, edits):
    for f, old, new in edits:
        p = os.path.join(d, f)
        s = open(p).read()
        if s.count(old) != 1:
            raise RuntimeError("%s: pattern occurs %d times" % (f, s.count(old)))
        open(p, "w").write(s.replace(old, new))


def imports_ok(d):
    r = subprocess.run([PY, "-c", "import sys; sys.path.insert(0, %r); import vsg.__main__, vsg.rule_list; vsg.rule_list.load_rules(); print('ok')" % d], capture_output=True, text=True, env=dict(os.environ, PYTHONDONTWRITEBYTECODE="1"))
    return r.returncode == 0 and "ok" in r.stdout, (r.stderr or "")[-400:]


def run_check(d, prop, extra=()):
    t = time.time()
    r = subprocess.run([os.path.join(HERE, "check"), prop, "--no-evidence"] + list(extra), capture_output=True, text=True, env=dict(os.environ, VERIF_REPO=d), cwd=HERE)
    lines = [l for l in r.stdout.splitlines() if l.startswith(("VIOLATION", "KNOWN-FINDING", "HARNESS", "  classes"))]
    return r.returncode, lines[:6], round(time.time() - t, 1), r.stdout.splitlines()[-1:] if r.stdout else []


def main():
    argv = sys.argv[1:]
    keep = "--keep" in argv
    out = None
    if "--out" in argv:
        i = argv.index("--out")
        out = argv[i + 1]
        del argv[i : i + 2]
    args = [a for a in argv if not a.startswith("--")]
    cases = []
    for n, m in MUTANTS.items():
        cases.append((n, m["prop"], m["what"], ("edits", m["edits"])))
    sd = os.path.join(HERE, "seeded")
    if os.path.isdir(sd):
        for n in sorted(os.listdir(sd)):
            meta = os.path.join(sd, n, "meta.json")
            if os.path.exists(meta):
                mj = json.load(open(meta))
                cases.append(("seeded/" + n, mj["property"], mj.get("what", ""), ("patch", os.path.join(sd, n, "patch.diff"))))
    if args and args != ["all"]:
        cases = [c for c in cases if c[0] in args or c[1] in args]
    results = []
    for name, prop, what, (kind, payload) in cases:
        d = scratch(name.replace("/", "_"))
        try:
            if kind == "edits":
                apply_edits(d, payload)
            else:
                subprocess.run(["patch", "-p1", "-s", "-i", payload], cwd=d, check=True)
            ok, err = imports_ok(d)
            if not ok:
                results.append({"name": name, "property": prop, "what": what, "detected": None, "note": "does not import: " + err})
                print("%-28s %s BROKEN-MUTANT %s" % (name, prop, err[-200:]), flush=True)
                continue
            rc, lines, secs, tail = run_check(d, prop)
            results.append({"name": name, "property": prop, "what": what, "detected": rc == 1, "exit": rc, "seconds": secs, "lines": lines, "summary": tail})
            print("%-28s %s exit=%d %s %.0fs %s" % (name, prop, rc, "DETECTED" if rc == 1 else "MISSED", secs, (lines[1] if len(lines) > 1 else "")[:160]), flush=True)
        except Exception as e:
            results.append({"name": name, "property": prop, "what": what, "detected": None, "note": repr(e)})
            print("%-28s %s ERROR %r" % (name, prop, e), flush=True)
        finally:
            if not keep:
                shutil.rmtree(d, ignore_errors=True)
    if out:
        with open(out, "w") as fh:
            json.dump({"tree": subprocess.run(["git", "-C", "/repo", "rev-parse", "--short", "HEAD"], capture_output=True, text=True).stdout.strip(), "results": results}, fh, indent=1)
    det = sum(1 for r in results if r["detected"])
    print("sensitivity: %d/%d detected" % (det, len(results)))
    try:
        os.rmdir(BASE)
    except OSError:
        pass


if __name__ == "__main__":
    main()
