#!/bin/sh
# usage: scratch_tree.sh <dir> [patch.diff]  - scratch copy of /repo's working tree (vsg copied, tests linked)
set -e
D="$1"
rm -rf "$D"; mkdir -p "$D"
cp -r /repo/vsg "$D/vsg"
find "$D/vsg" -name __pycache__ -type d -prune -exec rm -rf {} +
ln -s /repo/tests "$D/tests"
if [ -n "$2" ]; then (cd "$D" && patch -p1 -s < "$2"); fi
echo "$D"
