#!/bin/sh
# usage: multiseed.sh <first> <last> [props...]   - quick checks on /repo for a range of VERIF_SEED values (no evidence written)
A=$1; B=$2; shift 2; P="${@:-C04 C06 C15 C16}"
HERE="$(cd "$(dirname "$0")/.." && pwd)"
for sd in $(seq $A $B); do for p in $P; do
  OUT=$("$HERE/check" $p --seed $sd --no-evidence 2>&1); RC=$?
  echo "seed=$sd $p exit=$RC $(echo "$OUT" | grep -E 'quick:' | cut -c1-160)"
  echo "$OUT" | grep -E "^VIOLATION|^HARNESS|first=" | cut -c1-400
done; done
