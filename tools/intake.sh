#!/bin/sh
# usage: intake.sh <agent-name>   - verify a sub-agent's seeded change: applies to a clean export, demo on both trees, test-suite on the changed tree
N="$1"; OUT=/tmp/wt/$N-out; W=/tmp/intake/$N
rm -rf "$W"; mkdir -p "$W/clean" "$W/mut"
git -C /repo archive HEAD | tar -x -C "$W/clean"
git -C /repo archive HEAD | tar -x -C "$W/mut"
(cd "$W/mut" && git apply --unsafe-paths -p1 "$OUT/patch.diff" 2>&1 || patch -p1 -s < "$OUT/patch.diff") || { echo "PATCH DOES NOT APPLY"; exit 3; }
DEMO="$OUT/demo.py"; RUN="/venv/bin/python"
[ -f "$DEMO" ] || { DEMO="$OUT/demo.sh"; RUN="sh"; }
echo "== demo on clean"; (cd "$W/clean" && PYTHONPATH="$W/clean" timeout 900 $RUN "$DEMO" "$W/clean" > "$W/demo_clean.out" 2>&1; echo "demo exit on clean=$? (want 0)"; tr -d '\000' < "$W/demo_clean.out" | tail -3 | cut -c1-300)
echo "== demo on mut"; (cd "$W/mut" && PYTHONPATH="$W/mut" timeout 900 $RUN "$DEMO" "$W/mut" > "$W/demo_mut.out" 2>&1; echo "demo exit on mut=$? (want 1)"; tr -d '\000' < "$W/demo_mut.out" | tail -3 | cut -c1-300)
if [ "$2" != "notests" ]; then
echo "== test-suite on mut"; (cd "$W/mut" && PYTHONPATH="$W/mut" timeout 3000 /venv/bin/python -m pytest -q -p no:cacheprovider -n 8 --timeout=900 tests 2>&1 | grep -E "^FAILED|passed|failed|error" | sort | tail -12)
fi
