#!/bin/sh
# thorough tier of every check against /repo, one after the other (no evidence written); summary lines only
HERE="$(cd "$(dirname "$0")/.." && pwd)"
for p in ${@:-C04 C15 C06 C16}; do
  OUT=$("$HERE/check" $p --tier thorough --no-evidence 2>&1); RC=$?
  echo "$p thorough exit=$RC $(echo "$OUT" | grep -E 'thorough:' | cut -c1-700)"
  echo "$OUT" | grep -E "^VIOLATION|^HARNESS|^KNOWN|first=" | cut -c1-500 | head -20
done
