library IEEE;
use IEEE.std_logic_1164.all;

ARCHITECTURE RTL OF FIFO IS
  SIGNAL a, b : std_logic;
BEGIN
  PROC_A : PROCESS (a) IS
  BEGIN
    IF (a = '1') THEN
      b <= '0';
    END IF;
  END PROCESS PROC_A;
END ARCHITECTURE RTL;
