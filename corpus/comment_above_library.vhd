entity e1 is
end entity e1;

    -- comment above the library clause
  -- second comment line
library ieee;
  use ieee.std_logic_1164.all;

entity e2 is
  port (
    a : in std_logic -- trailing
  );
end entity e2;
