library ieee;
  use ieee.std_logic_1164.all;

entity dut is
  port (
    clk : in    std_logic;
    d   : in    std_logic;
    q   : out   std_logic
  );
end entity dut;

architecture rtl of dut is

  constant c_width : integer := 8;
  -- synthesis translate_off
  constant c_debug : integer := 1;
  -- synthesis translate_on
  type t_state is (idle, run);
  -- synthesis translate_off
  subtype t_index is integer range 0 to 7;
  -- synthesis translate_on
  signal state : t_state;
  -- synthesis translate_off
  signal trace : std_logic;
  -- synthesis translate_on

  function f_inv (a : std_logic) return std_logic is
  -- synthesis translate_off
  begin
    -- synthesis translate_on
    return not a;
  end function f_inv;

begin

  blk_a : block is
  -- synthesis translate_off
  begin
    -- synthesis translate_on

    q <= f_inv(d);

  end block blk_a;

end architecture rtl;
