library ieee;
  use ieee.std_logic_1164.all;

entity fifo is
  port (
    clk : in    std_logic
  );
end entity fifo;

architecture rtl of fifo is

  signal a : std_logic;
  signal b : std_logic;
  -- synthesis translate_on
begin

  proc_a : process (clk) is
  begin

    a <= b;
    -- synthesis translate_on
  end process proc_a;
  -- synthesis translate_on
end architecture rtl;
