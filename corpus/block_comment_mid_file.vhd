library ieee;
use ieee.std_logic_1164.all;

entity e is
end entity e;

--------------------------------
--line one of a block comment
--line two
--------------------------------
architecture rtl of e is
begin
end architecture rtl;
