"""Framing for the pipes between simulated processes and towards the judging parent, the state
snapshotter and the fault plan.  Uses the un-intercepted os calls only."""
import hashlib
import os
import pickle
import stat as _stat
import struct

from vsim import seams


def _w(fd, b):
    w = seams.REAL.get("os_write", os.write)
    mv = memoryview(b)
    while mv:
        n = w(fd, mv)
        mv = mv[n:]


def send(fd, obj):
    b = pickle.dumps(obj, protocol=4)
    _w(fd, struct.pack("<I", len(b)) + b)


def recv(fd):
    hdr = b""
    while len(hdr) < 4:
        c = os.read(fd, 4 - len(hdr))
        if not c:
            raise EOFError
        hdr += c
    n = struct.unpack("<I", hdr)[0]
    parts = []
    got = 0
    while got < n:
        c = os.read(fd, min(1 << 20, n - got))
        if not c:
            raise EOFError
        parts.append(c)
        got += len(c)
    return pickle.loads(b"".join(parts))


def digest(b):
    return hashlib.sha1(b).hexdigest()[:16]


class Snapshotter:
    """Observes the sandbox with the real calls; reports what changed since the last look.
    State of a file = (content digest, permission bits).  Directories are not reported."""

    def __init__(self, root):
        self.root = root if root.endswith(os.sep) else root + os.sep
        self.last = {}

    def full(self):
        R = seams.REAL
        out = {}
        stack = [self.root]
        while stack:
            d = stack.pop()
            try:
                with R["scandir"](d) as it:
                    ents = list(it)
            except OSError:
                continue
            for e in ents:
                try:
                    if e.is_dir(follow_symlinks=False):
                        stack.append(e.path)
                        continue
                    st = R["lstat"](e.path)
                    if _stat.S_ISLNK(st.st_mode):
                        out[e.path[len(self.root):]] = ("symlink:" + os.readlink(e.path), 0)
                        continue
                    with R["open"](e.path, "rb") as fh:
                        data = fh.read()
                    out[e.path[len(self.root):]] = (digest(data), _stat.S_IMODE(st.st_mode))
                except OSError as ex:
                    out[e.path[len(self.root):]] = ("unreadable:" + type(ex).__name__, 0)
        return out

    def delta(self):
        cur = self.full()
        d = {}
        for k, v in cur.items():
            if self.last.get(k) != v:
                d[k] = v
        for k in self.last:
            if k not in cur:
                d[k] = None
        self.last = cur
        return d


class Plan:
    """Fault plan of a run.  Faults on operations are addressed (proc, n[, kind]) where proc is a
    task index or "main" and n the 1-based operation count inside that task; global faults are
    addressed by scheduler step."""

    def __init__(self, faults=None):
        self.ops = {}
        self.glob = {}
        self.fired = []
        self.skipped = []
        for f in faults or []:
            if "step" in f:
                self.glob[int(f["step"])] = f
            else:
                self.ops[(f["proc"], int(f["n"]))] = f

    STICKY_KINDS = ("open-w", "write", "write-raw", "flush", "close", "copy-open", "copy-data", "fsync", "truncate", "mkdir")

    def lookup(self, proc, n, kind):
        f = self.ops.get((proc, n))
        if f is None:
            # "the disk is full from here on": once fired, every later space-consuming operation of
            # every process fails the same way (plan state lives in the pool owner / the single process)
            if getattr(self, "sticky", None) is not None and kind in self.STICKY_KINDS and kind != "close":
                self.fired.append((proc, n, kind))
                return ["err", self.sticky, "disk-full"]
            return None
        want = f.get("kind")
        if want is not None and want != kind:
            self.skipped.append((proc, n, kind, want))
            return None
        self.fired.append((proc, n, kind))
        if f["fault"][0] == "disk-full":
            self.sticky = int(f["fault"][1])
            return ["err", self.sticky, "disk-full"]
        return list(f["fault"])

    def at_step(self, step):
        return self.glob.get(step)
