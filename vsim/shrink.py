"""Minimisation of a violating run descriptor by structure-aware delta debugging.

Order (DESIGN.md 3.6): files of the batch, job count, fault list, argv options, schedule (fewest
context switches among a few re-searched schedules, then frozen as an explicit decision list),
lines of the input files.  A candidate is kept only if the *same violation class* reappears.
Budget: at most BUDGET candidate runs."""
import copy
import os

from vsim import workload

BUDGET = 150


def trace_of(res):
    if not isinstance(res, dict):
        return None
    if res.get("end") and res["end"].get("trace") is not None:
        return res["end"]["trace"]
    return [list(r[2]) for r in res["records"] if r[0] == "sched" and r[2][0] != "pool"]


def switches(trace):
    n, last = 0, None
    for a in trace or []:
        if a[0] == "step":
            if last is not None and a[1] != last:
                n += 1
            last = a[1]
    return n


def split_argv(desc):
    a = list(desc["argv"])
    if "-f" in a:
        i = a.index("-f")
        return a[:i], a[i + 1 :]
    return a, []


def drop_name(desc, k):
    d = copy.deepcopy(desc)
    head, names = split_argv(d)
    gone = names.pop(k)
    if not names:
        return None
    d["argv"] = head + ["-f"] + names
    if os.path.normpath(gone) not in [os.path.normpath(n) for n in names]:
        d["sandbox"] = [f for f in d["sandbox"] if os.path.normpath(f["path"]) != os.path.normpath(gone)]
        if "targets" in d:
            d["targets"] = [t for t in d["targets"] if os.path.normpath(t) != os.path.normpath(gone)]
    nf = []
    for f in d.get("faults") or []:
        if "step" in f or f["proc"] == "main":
            nf.append(f)
        elif f["proc"] == k:
            continue
        elif isinstance(f["proc"], int) and f["proc"] > k:
            nf.append(dict(f, proc=f["proc"] - 1))
        else:
            nf.append(f)
    d["faults"] = nf
    return d


def drop_option(desc, opt, nargs):
    d = copy.deepcopy(desc)
    head, names = split_argv(d)
    if opt not in head:
        return None
    i = head.index(opt)
    del head[i : i + 1 + nargs]
    d["argv"] = head + (["-f"] + names if names else [])
    return d


def set_jobs(desc, n):
    d = copy.deepcopy(desc)
    head, names = split_argv(d)
    if "-p" not in head:
        return None
    i = head.index("-p")
    if head[i + 1] == str(n):
        return None
    head[i + 1] = str(n)
    d["argv"] = head + (["-f"] + names if names else [])
    return d


class Shrinker:
    def __init__(self, mod, env, classes, budget=BUDGET):
        self.mod, self.env, self.classes, self.left = mod, env, set(classes), budget
        self.runs = 0
        self.log = []

    def test(self, d):
        """Returns (V, res) if d still violates with one of the wanted classes, else None."""
        if d is None or self.left <= 0:
            return None
        self.left -= 1
        self.runs += 1
        V, res = self.mod.judge(d, self.env)
        if not isinstance(V, list):
            return None
        hit = [x for x in V if x["class"] in self.classes and self._same_exception(x)]
        if not hit:
            return None
        return V, res

    def _same_exception(self, x):
        """A violation that consists of an exception keeps its exception type while shrinking
        (dropping a file that the configuration still names would otherwise 'reproduce' an
        exception-only-in-batch violation with an unrelated configuration error)."""
        what = getattr(self, "what", None)
        if what is not None:
            # read monitor: the same complaint (e.g. the same unclassified token), not just any
            return isinstance(x.get("observed"), dict) and str(x["observed"].get("what", "")).split(" at line")[0] == what
        want = getattr(self, "exc_type", None)
        if want is None:
            return True
        exc = (x.get("observed") or {}).get("exc") if isinstance(x.get("observed"), dict) else None
        return isinstance(exc, dict) and exc.get("type") == want

    def try_schedules(self, d, keep_trace):
        """Candidate d with (a) the old decisions filtered through, (b) fresh PRNG schedules."""
        cands = []
        if keep_trace is not None:
            cands.append(dict(copy.deepcopy(d), decisions=keep_trace))
        for s in range(3):
            cands.append(dict(copy.deepcopy(d), decisions=None, sched_seed=(d.get("sched_seed", 0) + 7919 * s) & 0x7FFFFFFF, policy="uniform"))
        for c in cands:
            r = self.test(c)
            if r:
                return c, r
        return None


def minimize(mod, v, env):
    if hasattr(mod, "minimize"):
        return mod.minimize(v, env)
    desc0 = v["desc"]
    classes = [x["class"] for x in v["violations"]]
    S = Shrinker(mod, env, classes[:1])
    first = v["violations"][0]
    if isinstance(first.get("observed"), dict) and isinstance(first["observed"].get("exc"), dict):
        S.exc_type = first["observed"]["exc"].get("type")
    if first.get("class") == "read-not-lossless" and isinstance(first.get("observed"), dict):
        S.what = str(first["observed"].get("what", "")).split(" at line")[0]
    cur = copy.deepcopy(desc0)
    r = S.test(cur)
    if not r:
        return dict(v, shrink={"note": "did not reproduce inside the shard", "runs": S.runs})
    V, res = r
    uses_pool = any(rec[0] == "sched" for rec in res["records"])
    trace = trace_of(res) if uses_pool else None
    if uses_pool:
        c = dict(copy.deepcopy(cur), decisions=trace)
        rr = S.test(c)
        if rr:
            cur, (V, res) = c, rr
            S.log.append("schedule frozen (%d decisions)" % len(trace))

    def attempt(d, what):
        nonlocal cur, V, res, trace
        if d is None:
            return False
        if uses_pool:
            got = S.try_schedules(d, trace)
            if not got:
                return False
            c, (V2, res2) = got
            cur, V, res = c, V2, res2
            trace = trace_of(res2)
            cur["decisions"] = trace
        else:
            rr = S.test(d)
            if not rr:
                return False
            cur, (V, res) = d, rr
        S.log.append(what)
        return True

    # 1. files
    changed = True
    while changed and S.left > 0:
        changed = False
        head, names = split_argv(cur)
        for k in range(len(names) - 1, -1, -1):
            if len(split_argv(cur)[1]) <= 1:
                break
            if attempt(drop_name(cur, k), "dropped file #%d" % k):
                changed = True
                break
    # 2. jobs
    for n in (1, 2):
        if attempt(set_jobs(cur, n), "jobs=%d" % n):
            uses_pool = any(rec[0] == "sched" for rec in res["records"])
            break
    # 3. faults
    i = 0
    while i < len(cur.get("faults") or []) and S.left > 0:
        d = copy.deepcopy(cur)
        del d["faults"][i]
        if not attempt(d, "dropped fault #%d" % i):
            i += 1
    if cur.get("raise_at_update"):
        d = copy.deepcopy(cur)
        d["raise_at_update"] = None
        attempt(d, "dropped rule failure")
    # 4. options
    for opt, nargs in (("--backup", 0), ("--style", 1), ("-fp", 1), ("-c", 1), ("--json", 1), ("--junit", 1), ("-of", 1), ("-ap", 0)):
        attempt(drop_option(cur, opt, nargs), "dropped option %s" % opt)
    # 5. schedule: fewest context switches among a few re-searched sticky schedules
    if uses_pool and S.left > 0:
        best = switches(trace)
        for s in range(10):
            if S.left <= 0 or best <= 1:
                break
            c = dict(copy.deepcopy(cur), decisions=None, sched_seed=1000 + s, policy="sticky")
            rr = S.test(c)
            if rr and switches(trace_of(rr[1])) < best:
                V, res = rr
                trace = trace_of(res)
                best = switches(trace)
                cur = dict(c, decisions=trace)
                S.log.append("schedule with %d context switches" % best)
    # 6. lines of the remaining inputs
    tries = 0
    for ent in list(cur["sandbox"]):
        if not ent["path"].endswith(".vhd"):
            continue
        data = workload.sb_bytes(ent)
        lines = data.split(b"\n")
        chunk = max(1, len(lines) // 2)
        while chunk >= 1 and S.left > 0 and tries < 60:
            i = 0
            progressed = False
            while i < len(lines) and S.left > 0 and tries < 60:
                cand = lines[:i] + lines[i + chunk :]
                if not cand or cand == lines:
                    i += chunk
                    continue
                d = copy.deepcopy(cur)
                for e2 in d["sandbox"]:
                    if e2["path"] == ent["path"]:
                        e2["b64"] = workload.sb_entry("x", b"\n".join(cand))["b64"]
                tries += 1
                rr = S.test(d)
                if rr:
                    cur, (V, res) = d, rr
                    if uses_pool:
                        trace = trace_of(res)
                        cur["decisions"] = trace
                    lines = cand
                    progressed = True
                else:
                    i += chunk
            if not progressed:
                chunk //= 2
        if len(lines) != len(data.split(b"\n")):
            S.log.append("%s: %d -> %d lines" % (ent["path"], len(data.split(b"\n")), len(lines)))
    if uses_pool:
        cur["decisions"] = trace_of(res)
    hit = [x for x in V if x["class"] in S.classes] + [x for x in V if x["class"] not in S.classes]
    return {"desc": cur, "violations": hit, "orig_desc": desc0, "shrink": {"runs": S.runs, "steps": S.log}}
