"""Check driver: plans the jobs of a property check, feeds them to shard interpreters, aggregates
evidence, confirms violations by replay in fresh interpreters and reports.

Exit codes: 0 property held on everything explored (known findings are printed, not failed);
1 violation (with a `VIOLATION property=<id> replay=<path>` line); 2 harness trouble (timeouts,
shard failures, non-reproducible violation) - never 0 in that case."""
import argparse
import importlib
import json
import os
import queue
import subprocess
import sys
import threading
import time

HERE = os.path.dirname(os.path.dirname(os.path.abspath(__file__)))
if HERE not in sys.path:
    sys.path.insert(0, HERE)

from vsim import known  # noqa: E402

NCLASS = 4
REPO = os.environ.get("VERIF_REPO", "/repo")


def py():
    return os.environ.get("VERIF_PYTHON") or ("/venv/bin/python" if os.path.exists("/venv/bin/python") else sys.executable)


def spawn_shard(cls, alt=True, stderr=None):
    env = dict(os.environ)
    env["PYTHONHASHSEED"] = str(cls)
    env["PYTHONDONTWRITEBYTECODE"] = "1"
    env["VERIF_REPO"] = REPO
    if alt:
        env["VSIM_ALT_HASHSEED"] = str((cls + 1) % NCLASS)
    else:
        env.pop("VSIM_ALT_HASHSEED", None)
    return subprocess.Popen(
        [py(), "-u", os.path.join(HERE, "vsim", "shard_main.py"), "--shard"],
        stdin=subprocess.PIPE,
        stdout=subprocess.PIPE,
        stderr=stderr,
        env=env,
        text=True,
        cwd=HERE,
    )


class ShardThread(threading.Thread):
    def __init__(self, idx, cls, q, results, deadline, alt, errlog):
        super().__init__(daemon=True)
        self.idx, self.cls, self.q, self.results, self.deadline, self.alt, self.errlog = idx, cls, q, results, deadline, alt, errlog
        self.fatal = None

    def run(self):
        try:
            p = spawn_shard(self.cls, self.alt, self.errlog)
        except Exception as e:  # pragma: no cover
            self.fatal = "spawn failed: %r" % e
            return
        try:
            line = p.stdout.readline()
            if not line:
                self.fatal = "shard %d died during start-up" % self.idx
                return
            while True:
                if time.monotonic() > self.deadline:
                    return
                try:
                    job = self.q.get_nowait()
                except queue.Empty:
                    return
                p.stdin.write(json.dumps(job) + "\n")
                p.stdin.flush()
                line = p.stdout.readline()
                if not line:
                    self.fatal = "shard %d died while running job %r" % (self.idx, {k: job[k] for k in job if k != "desc"})
                    return
                self.results.put(json.loads(line))
        finally:
            try:
                p.stdin.close()
            except Exception:
                pass
            try:
                p.wait(timeout=30)
            except Exception:
                p.kill()


def run_jobs(jobs, nshards, budget_s, alt, errlog=None):
    qs = [queue.Queue() for _ in range(NCLASS)]
    for i, j in enumerate(jobs):
        j.setdefault("class", i % NCLASS)
        qs[j["class"]].put(j)
    results = queue.Queue()
    deadline = time.monotonic() + budget_s
    threads = []
    used = [c for c in range(NCLASS) if not qs[c].empty()]
    if not used:
        return [], [], False
    k = 0
    while len(threads) < nshards:
        cls = used[k % len(used)]
        k += 1
        t = ShardThread(len(threads), cls, qs[cls], results, deadline, alt, errlog)
        t.start()
        threads.append(t)
    for t in threads:
        t.join()
    out = []
    while not results.empty():
        out.append(results.get())
    fatals = [t.fatal for t in threads if t.fatal]
    left = sum(q.qsize() for q in qs)
    return out, fatals, left > 0


def replay_once(prop, desc, alt):
    """Re-execute a descriptor in a fresh interpreter; returns the result dict of the replay job."""
    cls = int(desc.get("hashseed_class", 0)) % NCLASS
    p = spawn_shard(cls, alt, subprocess.DEVNULL)
    try:
        p.stdout.readline()
        p.stdin.write(json.dumps({"prop": prop, "mode": "replay", "desc": desc}) + "\n")
        p.stdin.flush()
        line = p.stdout.readline()
        return json.loads(line) if line else {"fatal": "replay shard died"}
    finally:
        try:
            p.stdin.close()
            p.wait(timeout=30)
        except Exception:
            p.kill()


def selftest(mod, prop, a, alt, quiet=False):
    """Same jobs, two shard layouts: per-job event-log digests and verdicts must be identical."""
    import copy
    import random

    jobs = mod.plan(a.tier, a.seed)
    random.Random(a.seed).shuffle(jobs)  # a mix of all job modes
    jobs = jobs[: (a.limit or 200)]
    for j in jobs:
        j["noshrink"] = True
    maps = []
    for shards in (a.shards, 5):
        res, fatals, _ = run_jobs(copy.deepcopy(jobs), shards, 3600, alt, subprocess.DEVNULL)
        m = {}
        for r in res:
            if r.get("fatal"):
                m[json.dumps(r["job"], sort_keys=True)] = "FATAL"
                continue
            k = json.dumps({x: r["job"][x] for x in r["job"] if x != "class"}, sort_keys=True)
            m[k] = (r["log_digest"], r["evals"], json.dumps([[x["class"] for x in v["violations"]] for v in r["violations"]]), json.dumps(r["status"], sort_keys=True))
        maps.append(m)
    same = maps[0] == maps[1]
    diff = [k for k in maps[0] if maps[0].get(k) != maps[1].get(k)]
    out = {"jobs": len(jobs), "runs": sum(v[1] for v in maps[0].values() if v != "FATAL"), "layouts": [a.shards, 5], "identical": same, "differing_jobs": diff[:5]}
    if not quiet:
        print("SELFTEST determinism %s: %s" % (prop, json.dumps(out)))
    return (0 if same else 2) if not quiet else out


def classes_of(V):
    return sorted({v["class"] for v in V})


def main(argv=None):
    ap = argparse.ArgumentParser(prog="check")
    ap.add_argument("prop")
    ap.add_argument("--tier", default=os.environ.get("VERIF_TIER") or "quick", choices=["quick", "thorough"])
    ap.add_argument("--seed", type=int, default=int(os.environ.get("VERIF_SEED") or 0))
    ap.add_argument("--replay")
    ap.add_argument("--shards", type=int, default=int(os.environ.get("VERIF_SHARDS") or min(16, os.cpu_count() or 4)))
    ap.add_argument("--budget", type=float, default=None, help="wall budget in seconds for feeding jobs")
    ap.add_argument("--limit", type=int, default=None, help="only the first N planned jobs (development)")
    ap.add_argument("--modes", default=None, help="comma separated job modes to keep (development)")
    ap.add_argument("--no-evidence", action="store_true")
    ap.add_argument("--selftest", action="store_true", help="determinism self-test: the first --limit (default 200) jobs twice, with 16 and with 5 shards; event-log digests must agree")
    ap.add_argument("--verbose", action="store_true")
    a = ap.parse_args(argv)
    prop = a.prop.upper()
    mod = importlib.import_module("vsim.props." + prop.lower())
    alt = getattr(mod, "NEEDS_ALT", False)
    os.makedirs(os.path.join(HERE, "replays"), exist_ok=True)
    os.makedirs(os.path.join(HERE, "evidence"), exist_ok=True)

    if a.replay:
        with open(a.replay) as fh:
            desc = json.load(fh)
        r = replay_once(prop, desc, alt)
        if r.get("fatal"):
            print("HARNESS-ERROR during replay:\n" + r["fatal"])
            return 2
        V = r.get("violations") or []
        print(json.dumps({"status": r.get("status"), "violations": V}, indent=1, default=str)[:6000])
        kf = known.load()
        if V:
            unknown = [v for v in V if not known.match(kf, prop, desc, v)]
            if unknown:
                print("VIOLATION property=%s replay=%s" % (prop, a.replay))
                return 1
            for f in {known.match(kf, prop, desc, v)["id"]: known.match(kf, prop, desc, v) for v in V}.values():
                print("KNOWN-FINDING: property=%s %s: %s" % (prop, f["id"], f["what"]))
            return 0
        print("replay: no violation")
        return 0

    t0 = time.time()
    print("VERIF_SEED=%d tier=%s property=%s tree=%s" % (a.seed, a.tier, prop, REPO), flush=True)
    if a.selftest:
        return selftest(mod, prop, a, alt)
    jobs = mod.plan(a.tier, a.seed)
    if a.modes:
        keep = set(a.modes.split(","))
        jobs = [j for j in jobs if j["mode"] in keep]
    if a.limit:
        jobs = jobs[: a.limit]
    budget = a.budget or float(os.environ.get("VERIF_BUDGET") or (mod.BUDGET[a.tier] if hasattr(mod, "BUDGET") else (600 if a.tier == "quick" else 7200)))
    errlog = None if a.verbose else open(os.path.join(HERE, "replays", "shard-%s.stderr" % prop), "w")
    results, fatals, exhausted = run_jobs(jobs, a.shards, budget, alt, errlog)
    wall_jobs = time.time() - t0

    # ---- aggregate
    agg = {"traces": set(), "states": set(), "evals": 0, "keys": set(), "faults": {}, "probes": {}, "stats": {}, "skipped": {}, "status": {}, "samples": [], "timeouts": 0, "harness": [], "steps": 0, "boundaries": 0, "jobs": 0}
    viol = []
    for r in results:
        if r.get("fatal"):
            agg["harness"].append(r["fatal"])
            continue
        agg["jobs"] += 1
        agg["evals"] += r["evals"]
        agg["keys"].update(r["keys"])
        agg["traces"].update(r.get("traces") or [])
        agg["states"].update(r.get("states") or [])
        for f in ("faults", "probes", "stats", "skipped", "status"):
            for k, n in r[f].items():
                agg[f][k] = agg[f].get(k, 0) + n
        agg["timeouts"] += r["timeouts"]
        agg["harness"] += r["harness_errors"]
        agg["steps"] += r["steps"]
        agg["boundaries"] += r["boundaries"]
        if len(agg["samples"]) < 6:
            agg["samples"] += r["samples"][:1]
        viol += r["violations"]
    agg["harness"] += fatals

    # ---- violations: known findings, replay confirmation
    kf = known.load()
    exit_code = 0
    known_hit = {}
    reported = 0
    nonrepro = 0
    for v in viol:
        desc, V = v["desc"], v["violations"]
        unknown = [x for x in V if not known.match(kf, prop, desc, x)]
        if not unknown:
            for x in V:
                f = known.match(kf, prop, desc, x)
                known_hit[f["id"]] = known_hit.get(f["id"], 0) + 1
            continue
        want = classes_of(unknown)
        ok = True
        if reported < 5:
            for _ in range(2):
                rr = replay_once(prop, desc, alt)
                got = classes_of(rr.get("violations") or [])
                if not set(want) <= set(got):
                    ok = False
        if not ok:
            nonrepro += 1
            path = os.path.join(HERE, "replays", "NONREPRO-%s-%s.json" % (prop, desc.get("run_seed")))
            with open(path, "w") as fh:
                json.dump(dict(desc, observed=V), fh, indent=1, default=str)
            print("HARNESS-ERROR: violation %s of run %s did not reproduce in a fresh interpreter (%s)" % (want, desc.get("run_seed"), path))
            continue
        reported += 1
        exit_code = 1
        path = os.path.join(HERE, "replays", "%s-%s.json" % (prop, desc.get("run_seed")))
        with open(path, "w") as fh:
            json.dump(dict(desc, **{"class": want, "observed": unknown, "shrink": v.get("shrink"), "unshrunk": v.get("orig_desc")}), fh, indent=1, default=str)
        print("VIOLATION property=%s replay=%s" % (prop, path))
        print("  classes=%s first=%s" % (want, json.dumps(unknown[0], default=str)[:400]))
    for fid, n in sorted(known_hit.items()):
        f = [x for x in kf if x["id"] == fid][0]
        print("KNOWN-FINDING: property=%s %s (%d runs): %s" % (prop, fid, n, f["what"]))

    wall = time.time() - t0
    harness_bad = bool(agg["harness"]) or agg["timeouts"] > 0 or nonrepro > 0
    if harness_bad and exit_code == 0:
        exit_code = 2
    if exit_code == 0 and agg["evals"] == 0:
        exit_code = 2
        agg["harness"].append("no run was executed")

    # ---- evidence
    if not a.no_evidence:
        cov = {
            "evaluations": agg["evals"],
            "distinct_nontrivial": len(agg["keys"]),
            "rule": mod.RULE,
            "samples": agg["samples"] or ["none"],
            "jobs_planned": len(jobs),
            "jobs_done": agg["jobs"],
            "budget_exhausted": bool(exhausted),
            "runs_per_hour": int(agg["evals"] / max(wall_jobs, 1e-6) * 3600),
            "seeds_per_hour": int(agg["jobs"] / max(wall_jobs, 1e-6) * 3600),
            "simulated_time_steps": agg["steps"],
            "simulated_time_note": "VSG has no timers; the only clock is the count of scheduler actions and intercepted I/O operations executed",
            "crash_points_checked": agg["boundaries"],
            "distinct_schedule_traces": len(agg["traces"]),
            "distinct_sandbox_states": len(agg["states"]),
            "distinctness_measure": "schedule trace = the full recorded decision list of a pool run (hash); sandbox state = the map path -> (content digest, mode) after an intercepted operation (hash)",
            "fault_kinds_fired": agg["faults"],
            "probes_hit": agg["probes"],
            "run_status_counts": agg["status"],
            "stats": agg["stats"],
            "skipped_workloads": agg["skipped"],
            "hashseed_classes": list(range(NCLASS)),
            "shards": a.shards,
            "timeouts": agg["timeouts"],
            "harness_errors": len(agg["harness"]),
            "nonreproducible": nonrepro,
            "known_findings_hit": known_hit,
            "violations_reported": reported,
            "real_components": mod.REAL_COMPONENTS,
            "stubbed_components": mod.STUBBED_COMPONENTS,
            "tree": REPO,
        }
        ev = {
            "property_id": prop,
            "tier": a.tier,
            "seed": a.seed,
            "level": mod.LEVEL,
            "coverage": cov,
            "assumptions": mod.ASSUMPTIONS,
            "wall_s": round(wall, 2),
            "violations": reported,
        }
        with open(os.path.join(HERE, "evidence", "%s.json" % prop), "w") as fh:
            json.dump(ev, fh, indent=1, default=str)
    print(
        "%s %s: %d jobs, %d simulated runs (%d distinct non-trivial) in %.0f s; faults fired %s; timeouts %d; harness errors %d; violations %d; known findings %s"
        % (prop, a.tier, agg["jobs"], agg["evals"], len(agg["keys"]), wall, json.dumps(agg["faults"], sort_keys=True), agg["timeouts"], len(agg["harness"]), reported, json.dumps(known_hit))
    )
    for h in agg["harness"][:3]:
        print("HARNESS-ERROR: " + str(h)[-1500:])
    return exit_code


if __name__ == "__main__":
    sys.exit(main())
