"""C06 - analysis is read-only, repeatable and rules do not interfere.  Seeded search over analysis
schedules (order, enabled subset, phase re-assignment, repetition, gating) of the real API against a
per-rule reference model.  DESIGN.md section 4 (C06)."""
import copy
import os

from vsim import runner, wire, workload
from vsim.decider import H, substream
from vsim.props import common

PROP = "C06"
LEVEL = "exploration"
NEEDS_ALT = True
BUDGET = {"quick": 420, "thorough": 3 * 3600}
RULE = (
    "a case is one analysis schedule executed on the real vhdlFile/rule_list objects of one (file, style, configuration): a permutation "
    "of the rule list, a random disabled subset (1-90 %), a random subset of the default-disabled rules switched on, 0-20 phase "
    "re-assignments (all through the real configuration path), 1-3 check_rules passes (gated or all-phases, random skip_phase) with "
    "clear_violations in between; each rule's report is compared with the report it gives when analysed alone on a pristine parse "
    "(independent rules) or with the canonical pass (dependent rules with unchanged predecessors), and text / (type,value) digests are "
    "compared after every pass. Non-trivial = the file was accepted, at least 50 rule analyses ran in the schedule and at least one rule "
    "of the file reports a violation alone; distinct = distinct (file digest, style, schedule descriptor hash)."
)
ASSUMPTIONS = [
    "no fault kind applies and nothing runs concurrently: what is searched is the order/subset/repetition history the property quantifies over",
    "repetition follows the calling convention of apply_rules (clear_violations between passes)",
    "a rule is 'dependent' (documented exception) iff some rule of its (possibly re-assigned) phase has a smaller sub-phase; a dependent rule is compared only when its earlier-sub-phase predecessors are the canonical ones, otherwise the comparison is excused and counted",
    "rules whose analysis alone raises are left out (C19's subject)",
    "token-attribute writes without observable effect are probes, not violations",
]
REAL_COMPONENTS = ["vsg.cmd_line_args / vsg.config.New (real configuration path)", "vhdlFile tokenizer + classifier", "rule_list.rule_list, configure, check_rules, clear_violations, every rule's analyze", "report_violations"]
STUBBED_COMPONENTS = ["the caller of check_rules (apply_rules is replaced by the schedule driver vsim/api_engine.py)", "stdout/stderr (discarded)"]


def gen_schedule(rng, rules):
    real = [r for r in rules if r[1] != 0]
    on = [r[0] for r in real if not r[3]]
    off = [r[0] for r in real if r[3]]
    s = {"perm_seed": rng.randrange(1 << 30) if rng.random() < 0.85 else None}
    dens = rng.choice([0.0, 0.01, 0.05, 0.2, 0.5, 0.9])
    s["disable"] = sorted(u for u in on if rng.random() < dens)
    edens = rng.choice([0.0, 0.0, 0.1, 0.5, 1.0])
    s["enable"] = sorted(u for u in off if rng.random() < edens)
    ph = {}
    for _ in range(rng.choice([0, 0, 0, 2, 8, 20])):
        ph[rng.choice(real)[0]] = rng.randint(1, 7)
    s["phase"] = ph
    passes = []
    for _ in range(rng.choice([1, 1, 2, 3])):
        skip = sorted(rng.sample(range(1, 8), rng.choice([0, 0, 0, 1, 2])))
        passes.append({"all": rng.random() < 0.7, "skip": skip})
    if rng.random() < 0.3 and len(passes) >= 1:
        passes.append(dict(passes[-1]))  # the identical pass again: repeatability on the same objects
    s["passes"] = passes
    return s


def gen_pruned(rng, rules, complement_of=None):
    """Canonical order and configuration, except that a random half of the rules of ONE sub-phase
    level is switched off: the dependents of that level keep exactly their canonical earlier-
    sub-phase predecessors, so their reports must not move (same-sub-phase neighbours and other
    phases are not part of the documented exception)."""
    level = rng.choice([2, 2, 2, 1, 3])
    group = sorted(r[0] for r in rules if r[1] != 0 and not r[3] and r[2] == level and (r[1], r[2]) != (1, 0))
    off = sorted(u for u in group if rng.random() < 0.5)
    if complement_of is not None:
        level = complement_of["pruned_level"]
        group = sorted(r[0] for r in rules if r[1] != 0 and not r[3] and r[2] == level and (r[1], r[2]) != (1, 0))
        off = sorted(u for u in group if u not in complement_of["disable"])
    return {"perm_seed": None, "disable": off, "enable": [], "phase": {}, "passes": [{"all": True, "skip": []}], "pruned_level": level}


def gen_desc(seed, nsched):
    rng = substream(seed, "workload")
    label, data = workload.pick_bytes(rng, rng.choice(["small"] * 7 + ["mid"] * 3 + ["big"]))
    if rng.random() < 0.5:
        p = rng.choice(sorted(p for p, s in workload.corpus() if os.path.basename(p).startswith("rule_") and p.endswith("_test_input.vhd") and s <= 20000))
        label, data = os.path.relpath(p, workload.REPO), workload.read(p)
    tags, data = workload.perturb_bytes(rng, data)
    style = rng.choice(workload.STYLES)
    base = None
    if rng.random() < 0.3:
        base = {"rule": {"global": {"indent_size": rng.choice([2, 3, 4])}}}
    if rng.random() < 0.25:
        g = workload.random_group_config(rng, runner.RULES)
        if g:
            base = base or {"rule": {}}
            base["rule"]["group"] = g
    if rng.random() < 0.5:
        # documented option values for a handful of rules (the same in the reference and in every schedule)
        base = base or {"rule": {}}
        cand = [r for r in runner.RULES if r[1] != 0 and any(o in workload.option_domains() for o in r[6])]
        for r in rng.sample(cand, min(len(cand), rng.choice([2, 6, 20]))):
            o = workload.random_options(rng, r, 0.7)
            if o:
                base["rule"].setdefault(r[0], {}).update(o)
    lr = []
    if rng.random() < 0.2:
        lr = workload.local_rules_documented(rng)
    srng = substream(seed, "schedule")
    schedules = [{"perm_seed": None, "disable": [], "enable": [], "phase": {}, "passes": [{"all": True, "skip": []}, {"all": True, "skip": []}], "report": True}]
    # the phase-gated check twice on the same objects (what apply_rules does around a fix), with the
    # printed report: stop phase, rule count and violations must repeat
    schedules.append({"perm_seed": None, "disable": [], "enable": [], "phase": {}, "passes": [{"all": False, "skip": []}, {"all": False, "skip": []}], "report": True})
    for k in range(nsched):
        schedules.append(gen_pruned(srng, runner.RULES) if k % 3 == 2 else gen_schedule(srng, runner.RULES))
    return {
        "property": PROP,
        "engine": "api",
        "run_seed": seed,
        "umask": "022",
        "file": "x.vhd",
        "sandbox": [workload.sb_entry("x.vhd", data)] + lr,
        "local_rules": "lr" if lr else None,
        "style": style,
        "base_config": base,
        "schedules": schedules,
        "want_alone": True,
        "meta": {"from": label, "tags": tags, "size": len(data), "digest": wire.digest(data), "style": style, "local_rules": len(lr)},
    }


def api_result(res):
    for rec in res["records"]:
        if rec[0] == "api-result":
            return rec[1]
    return None


def min_sub(meta):
    m = {}
    for u, (ph, sub, dis, sev) in meta.items():
        m[ph] = min(m.get(ph, 99), sub)
    return m


def preds(meta, ran, u):
    ph, sub = meta[u][0], meta[u][1]
    i = ran.index(u)
    return sorted(x for x in ran[:i] if x in meta and meta[x][0] == ph and meta[x][1] < sub)


def evaluate(desc, R):
    """Returns (violations, stats)."""
    V = []
    stats = {"compared": 0, "excused": 0, "analyses": 0, "rules_with_violations_alone": 0, "writers": sorted(R.get("writers") or {})}
    alone = R["alone"] or {}
    stats["rules_with_violations_alone"] = sum(1 for v in alone.values() if v)
    for u, w in (R.get("writers") or {}).items():
        if w.get("text"):
            V.append({"class": "text-changed-by-analysis", "target": u, "observed": {"reader": u, "writers": [u], "alone": True}})
        elif w.get("class"):
            V.append({"class": "classification-changed-by-analysis", "target": u, "observed": {"reader": u, "writers": [u], "alone": True}})
    scheds = R["schedules"]
    if not scheds or "passes" not in scheds[0]:
        return V, stats
    c0 = scheds[0]
    cmeta, cpass = c0["meta"], c0["passes"][0]
    cran = cpass["ran"]
    cV = cpass["V"]
    seen = set()
    for si, s in enumerate(scheds):
        if "passes" not in s:
            continue
        meta = s["meta"]
        ms = min_sub(meta)
        for pi, p in enumerate(s["passes"]):
            ran = p["ran"]
            stats["analyses"] += len(ran)
            if p["err"]:
                # a rule raised inside check_rules.  If that rule also raises alone, or the canonical
                # pass raises too, this is totality (C19), not interference.
                last = ran[-1] if ran else None
                if cpass["err"] or last is None or alone.get(last, 0) is None:
                    stats["excused"] += 1
                else:
                    V.append({"class": "report-depends-on-schedule", "target": last, "observed": {"reader": last, "writers": None, "err": p["err"], "schedule": si, "pass": pi}})
                continue
            if not p["text_ok"]:
                V.append({"class": "text-changed-by-analysis", "target": None, "observed": {"reader": None, "writers": None, "schedule": si, "pass": pi}})
            if not p["class_ok"]:
                V.append({"class": "classification-changed-by-analysis", "target": None, "observed": {"reader": None, "writers": None, "schedule": si, "pass": pi}})
            # the reports (JSON dictionary, syntastic lines) list exactly the per-rule violations:
            # together with the per-rule comparisons below this is "disabling D removes exactly
            # D's violations from the report"
            # (a local rule written the documented way is called <name>_<nnn> in the text reports and
            # by its never-updated `unique_id` attribute in the JSON dictionary - a naming difference
            # between formats, C14's subject: ids that are not built-in rule ids are compared as one label)
            builtin = {r[0] for r in runner.RULES}

            def nid(u):
                return u if u in builtin else "<local>"

            want_rep = sorted((nid(u), str(l), str(sol)) for u, vs in p["V"].items() for (l, sol) in vs)
            for key in ("rep_json", "rep_syn"):
                gotr = p.get(key)
                if key == "rep_syn":
                    want_rep = sorted((u, l) for (u, l, _s) in want_rep)
                if gotr is not None:
                    gotr = [(nid(x[0]),) + tuple(x[1:]) for x in gotr]
                if gotr is not None and sorted(tuple(x) for x in gotr) != want_rep and ("report", si, pi) not in seen:
                    seen.add(("report", si, pi))
                    g = sorted(tuple(x) for x in gotr)
                    miss = [x for x in want_rep if x not in g][:3]
                    extra = [x for x in g if x not in want_rep][:3]
                    V.append({"class": "report-depends-on-schedule", "target": (miss or extra or [[None]])[0][0], "observed": {"reader": None, "writers": None, "note": "%s report differs from the per-rule violation lists" % key, "missing": miss, "extra": extra, "schedule": si, "pass": pi}})
            ranset = set(ran)
            spec = desc["schedules"][si]["passes"][pi] if si < len(desc.get("schedules") or []) and pi < len(desc["schedules"][si].get("passes") or []) else {}
            for u in meta:
                got = [tuple(x) for x in p["V"].get(u, [])]
                if u not in ranset and spec.get("all", True) and not meta[u][2] and meta[u][0] not in (spec.get("skip") or []) and 1 <= meta[u][0] <= 7:
                    # an all-phases pass analyses every enabled rule of every phase that is not
                    # skipped: "disabling D removes exactly D's violations" - not those of others
                    if ("not-analysed", u) not in seen:
                        seen.add(("not-analysed", u))
                        V.append({"class": "report-depends-on-schedule", "target": u, "observed": {"reader": u, "writers": None, "note": "enabled rule was not analysed in an all-phases pass", "schedule": si, "pass": pi}})
                    continue
                if u not in ranset:
                    if got:
                        V.append({"class": "report-depends-on-schedule", "target": u, "observed": {"reader": u, "writers": None, "note": "rule reports although it was not analysed", "schedule": si, "pass": pi}})
                    continue
                if alone.get(u, 0) is None:
                    continue
                ph, sub = meta[u][0], meta[u][1]
                dep = sub > ms.get(ph, sub)
                if not dep:
                    want = [tuple(x) for x in alone.get(u, [])]
                    ref = "alone"
                else:
                    # documented exception: B may depend on the earlier sub-phases of its phase, and
                    # on nothing else.  Reference = B analysed after exactly its canonical
                    # predecessors; comparable whenever this pass ran exactly those before B.
                    dref, dpr = R.get("dep") or {}, R.get("dep_preds") or {}
                    if u in dref and dref[u] is not None and u in cmeta and cmeta[u][0] == ph and preds(meta, ran, u) == sorted(dpr.get(u, [])):
                        want = [tuple(x) for x in dref[u]]
                        ref = "after-canonical-predecessors"
                    elif u not in dref and u in cmeta and cmeta[u][0] == ph and u in cran and preds(meta, ran, u) == preds(cmeta, cran, u):
                        # without the (expensive) predecessor reference: the canonical pass is the
                        # reference; the "pruned" schedules make this comparison bite
                        want = [tuple(x) for x in cV.get(u, [])]
                        ref = "canonical"
                    else:
                        stats["excused"] += 1
                        continue
                stats["compared"] += 1
                if got != want and (u, si) not in seen:
                    seen.add((u, si))
                    V.append(
                        {
                            "class": "report-depends-on-schedule" if (si, pi) != (0, 1) else "repeat-mismatch",
                            "target": u,
                            "observed": {"reader": u, "writers": None, "ref": ref, "schedule": si, "pass": pi, "got": got[:3], "want": want[:3], "before": [x for q in s["passes"][:pi] for x in q["ran"]] + ran[: ran.index(u)]},
                        }
                    )
            # the identical pass again must give the identical report
            if pi > 0 and desc["schedules"][si]["passes"][pi] == desc["schedules"][si]["passes"][pi - 1]:
                q = s["passes"][pi - 1]
                if not q["err"] and (q["ran"] != ran or (q.get("report") is not None and q.get("report") != p.get("report"))):
                    V.append({"class": "repeat-mismatch", "target": None, "observed": {"reader": None, "writers": None, "schedule": si, "pass": pi, "what": "rules analysed" if q["ran"] != ran else "printed report", "ran_n": [len(q["ran"]), len(ran)]}})
            if pi > 0 and s["passes"][pi - 1].get("ran") == ran and s.get("passes") and desc["schedules"][si]["passes"][pi] == desc["schedules"][si]["passes"][pi - 1]:
                if s["passes"][pi - 1]["V"] != p["V"]:
                    diff = sorted(k for k in set(p["V"]) | set(s["passes"][pi - 1]["V"]) if p["V"].get(k) != s["passes"][pi - 1]["V"].get(k))
                    V.append({"class": "repeat-mismatch", "target": diff[0] if diff else None, "observed": {"reader": diff[0] if diff else None, "writers": None, "schedule": si, "pass": pi}})
    return V, stats


def localize(desc, v, env):
    """Second child run: which earlier analyses make the reader's report differ?"""
    o = v["observed"]
    if not o.get("reader") or not o.get("before") or o.get("ref") != "alone":
        return v
    d = copy.deepcopy(desc)
    sch = d["schedules"][o["schedule"]]
    d["schedules"] = []
    d["want_alone"] = False
    d["localize"] = {"reader": o["reader"], "before": o["before"], "want": o["want_full"] if "want_full" in o else None, "schedule": {"disable": [], "enable": sorted(set(o["before"] + [o["reader"]])), "phase": sch.get("phase") or {}}}
    return d


def run_parts(desc, env):
    """One forked child per pass: the forward reference pass, the reverse one, every suspect, the
    dependent-rule reference and every schedule each get a process of their own, so that state which
    lives for the life of a process (a class attribute, a default-argument list shared by several
    rule classes, a module-level memo) cannot contaminate the reference and the schedules alike."""
    recs, worst, last = [], "exit", None

    def child(**kw):
        nonlocal worst, last
        d = dict(desc, **kw)
        r = env.run(d)
        last = r
        recs.extend(r["records"])
        if r["status"] in ("timeout", "harness-error"):
            worst = r["status"]
        return api_result(r)

    R = {"alone": None, "writers": {}, "schedules": [], "errors": [], "suspects": [], "meta": {}}
    if desc.get("want_alone", True):
        A = child(schedules=[], alone_order="fwd", want_dep=False, localize=None)
        if A is None or worst != "exit":
            return dict(last, records=recs, status=worst if worst != "exit" else last["status"]), None
        if A.get("alone") is None:
            return dict(last, records=recs), dict(R, rejected=A.get("rejected"))
        B = child(schedules=[], alone_order="rev", want_dep=False, localize=None)
        alone = dict(A["alone"])
        R["writers"] = dict(A.get("writers") or {})
        for u, w in ((B or {}).get("writers") or {}).items():
            R["writers"].setdefault(u, w)
        R["errors"] = list(A.get("errors") or [])
        R["meta"] = A.get("meta") or {}
        if B and B.get("alone"):
            sus = sorted(u for u in alone if alone[u] != B["alone"].get(u, alone[u]))
            R["suspects"] = sus
            for u in sus[:24]:
                F = child(schedules=[], want_alone=False, suspect_rules=[u], want_dep=False, localize=None)
                if F and u in (F.get("fresh") or {}):
                    alone[u] = F["fresh"][u]
        R["alone"] = alone
        if desc.get("want_dep"):
            D = child(schedules=[], want_alone=True, alone_order="fwd", want_dep=True, localize=None)
            if D:
                R["dep"], R["dep_preds"], R["dep_suspects"] = D.get("dep") or {}, D.get("dep_preds") or {}, D.get("dep_suspects") or []
    # all schedules share one child: what one analysis leaves behind for the next is exactly what is
    # being looked for; the *reference* above is what must come from untouched processes
    if desc.get("schedules"):
        S_ = child(want_alone=False, want_dep=False, localize=None, suspect_rules=None)
        R["schedules"] = list((S_ or {}).get("schedules") or [{"error": "child-failed"}] * len(desc["schedules"]))
    res = dict(last, records=recs, status=worst if worst != "exit" else "exit")
    return res, R


def judge(desc, env):
    if desc.get("engine") == "cli":  # a cli-repeat descriptor being replayed / minimised
        keep = ("out/j.json", "out/j.xml")
        r1, r2 = env.run(desc, keep_files=keep), env.run(desc, keep_files=keep, alt=True)
        if r1["status"] in ("timeout", "harness-error"):
            return r1["status"], r1
        a = (r1["status"], (r1["end"] or {}).get("exit"), runner.stream_of(r1)[1], r1["kept"], sorted((k, v["h"], v["mode"]) for k, v in r1["after"].items()))
        b = (r2["status"], (r2["end"] or {}).get("exit"), runner.stream_of(r2)[1], r2["kept"], sorted((k, v["h"], v["mode"]) for k, v in r2["after"].items()))
        V = [] if a == b else [{"class": "hash-seed-dependence", "target": None, "observed": {"reader": None, "writers": None}}]
        r1["c06_stats"] = {"compared": 0, "excused": 0, "analyses": 0, "rules_with_violations_alone": 0, "writers": []}
        return V, r1
    res, R = run_parts(desc, env)
    if res["status"] in ("timeout", "harness-error"):
        return res["status"], res
    if R is None:
        return "harness-error", dict(res, harness="api engine returned nothing (%s)" % res["status"])
    if R["alone"] is None and desc.get("want_alone", True):
        return None, res
    res["c06_R"] = R
    sc = R.get("schedules") or []
    if sc and ("passes" not in sc[0] or sc[0]["passes"][0]["err"]):
        return None, res  # the canonical all-phases check of this file raises: C19's subject
    V, stats = evaluate(desc, R)
    res["c06_stats"] = stats
    # feedback: a rule whose analysis wrote token attributes gets schedules of its own in which it
    # is switched on together with every other rule, in canonical and in permuted order
    ws = sorted(R.get("writers") or {})
    if ws and not V and desc.get("want_alone", True) and not desc.get("no_followup"):
        allr = [r[0] for r in runner.RULES if r[1] != 0]
        d2 = copy.deepcopy(desc)
        d2["no_followup"] = True
        d2["schedules"] = [desc["schedules"][0]]
        for k in range(3):
            d2["schedules"].append({"perm_seed": None if k == 0 else H(desc["run_seed"], "followup", k) % (1 << 30), "disable": [], "enable": allr, "phase": {}, "passes": [{"all": True, "skip": []}]})
        for w in ws[:4]:
            d2["schedules"].append({"perm_seed": None, "disable": [], "enable": [w], "phase": {}, "passes": [{"all": True, "skip": []}]})
            # ... and moved to the first phase, so that every other rule analyses after it
            d2["schedules"].append({"perm_seed": None, "disable": [], "enable": [w], "phase": {w: 1}, "passes": [{"all": True, "skip": []}]})
        r2, R2 = run_parts(d2, env)
        if R2 is not None and R2.get("alone") is not None:
            V2, st2 = evaluate(d2, R2)
            for k in ("compared", "excused", "analyses"):
                stats[k] += st2[k]
            stats["followup_schedules"] = len(d2["schedules"]) - 1
            if V2:
                # report against the follow-up descriptor, which is self-contained
                res["c06_followup_desc"] = d2
                V = V2
                desc = d2
                R = R2
    # name the writers: localisation run per distinct reader (bounded)
    done = 0
    located = {}
    for v in V:
        o = v["observed"]
        if o.get("reader") in located:
            o["writers"] = located[o["reader"]]
        elif v["class"] == "report-depends-on-schedule" and o.get("reader") and o.get("before") and o.get("ref") in ("alone", "after-canonical-predecessors", "canonical") and done < 8:
            done += 1
            d = copy.deepcopy(desc)
            d["schedules"] = []
            d["want_alone"] = False
            sch = desc["schedules"][o["schedule"]]
            if o.get("ref") == "alone":
                pre, refv = [], R["alone"].get(o["reader"])
            elif o.get("ref") == "canonical":
                # reference = the canonical pass: its earlier-sub-phase predecessors stay, the rest
                # of what ran before the reader in the failing schedule is searched for the writers
                c0 = R["schedules"][0]
                cr = c0["passes"][0]["ran"]
                ps = set(preds(c0["meta"], cr, o["reader"]))
                pre = [x for x in cr if x in ps]
                refv = c0["passes"][0]["V"].get(o["reader"], [])
            else:
                pre, refv = (R.get("dep_preds") or {}).get(o["reader"], []), (R.get("dep") or {}).get(o["reader"])
            d["localize"] = {
                "reader": o["reader"],
                "preds": pre,
                "before": [x for x in o["before"] if x not in pre],
                "want": [list(x) for x in (refv or [])],
                "schedule": {"disable": [], "enable": sorted(set(o["before"] + [o["reader"]])), "phase": sch.get("phase") or {}},
            }
            r2 = env.run(d)
            R2 = api_result(r2)
            if R2 and R2.get("localize"):
                o["writers"] = R2["localize"].get("writers")
                o["localize_tests"] = R2["localize"].get("tests")
                located[o["reader"]] = o["writers"]
        if "before" in o:
            o["before_n"] = len(o["before"])
            del o["before"]
    return V, res


def breadth_files(seed):
    """The un-fixed rule test inputs (one shape per rule), in a seeded order."""
    import random

    # rule_<nnn>_test_input.vhd plus the un-fixed variants (rule_400_test_input_smart_tabs.vhd ...)
    fs = sorted(p for p, s in workload.corpus() if os.path.basename(p).startswith("rule_") and "test_input" in os.path.basename(p) and ".fixed" not in os.path.basename(p) and s <= 20000)
    random.Random(H(seed, "breadth")).shuffle(fs)
    return fs


def plan(tier, seed):
    n, ns = (64, 4) if tier == "quick" else (2600, 12)
    jobs = [{"prop": PROP, "mode": "sched", "i": i, "nsched": ns, "want_dep": tier != "quick", "seed": H(seed, tier, PROP, "sched", i)} for i in range(n)]
    nr = 30 if tier == "quick" else 600
    nc = len([p for p, s in workload.corpus() if os.sep + "corpus" + os.sep in p and p.startswith(workload.HERE)])
    jobs += [{"prop": PROP, "mode": "own", "i": i, "nsched": 3, "seed": H(seed, tier, PROP, "own", i)} for i in range(nc)]
    jobs += [{"prop": PROP, "mode": "repeat", "i": i, "nsched": 2, "seed": H(seed, tier, PROP, "repeat", i)} for i in range(nr)]
    nb = (len(breadth_files(seed)) + 11) // 12  # every un-fixed rule input, in both tiers
    jobs += [{"prop": PROP, "mode": "breadth", "i": i, "per": 12, "nsched": 0, "seed": seed} for i in range(nb)]
    jobs += [{"prop": PROP, "mode": "cli-repeat", "i": i, "seed": H(seed, tier, PROP, "cli-repeat", i)} for i in range(24 if tier == "quick" else 1500)]
    # the driver does not import vsg: the shards compute the triple list, job i takes every 16th
    jobs += [{"prop": PROP, "mode": "exotic", "i": i, "of": 16, "seed": seed} for i in range(16)]
    if tier != "quick":
        jobs += [{"prop": PROP, "mode": "ownswarm", "i": i, "of": 16, "seed": seed} for i in range(16)]
    jobs += common.regress_jobs(PROP, 1)
    return jobs


def strip_volatile(R):
    R = copy.deepcopy(R)
    return R


def run_breadth(job, env):
    """Many files, canonical two-pass check against the per-rule 'alone' reference only."""
    out = common.JobResult(job)
    fs = breadth_files(job["seed"])[job["i"] * job["per"] : (job["i"] + 1) * job["per"]]
    for k, p in enumerate(fs):
        d = gen_desc(H(job["seed"], "breadth", p), 0)
        d["base_config"] = None
        # canonical two-pass check + a complementary pair of pruned schedules: for every two rules
        # of the pruned level that fall into different halves, each is once analysed without the other
        prng = substream(H(job["seed"], "pruned", p), "schedule")
        a = gen_pruned(prng, runner.RULES)
        d["schedules"].append(a)
        d["schedules"].append(gen_pruned(prng, runner.RULES, complement_of=a))
        # the rule this input was written for (tests/<group>/rule_<nnn>_test_input.vhd), analysed
        # without any neighbour of its own sub-phase level (predecessors untouched)
        focus = os.path.basename(os.path.dirname(p)) + "_" + os.path.basename(p).split("_")[1]
        fr = [r for r in runner.RULES if r[0] == focus]
        if fr:
            # ... under a random documented setting of all of its options
            o = workload.random_options(prng, fr[0], 1.0)
            if o:
                d["base_config"] = {"rule": {focus: o}}
                d["meta"]["focus_options"] = o
        if fr and b"\t" in workload.read(p):
            # tabs are measured with the rule's own indent_size: give every rule of the focus rule's
            # family (shared base class or group) a tab width of its own, so that anything one rule
            # remembers about a token cannot pass for another rule's measurement
            fam = [r for r in runner.RULES if r[1] != 0 and r[0] != focus and (set(r[7]) & set(fr[0][7]) or set(r[8]) & set(fr[0][8]))]
            bc = d["base_config"] or {"rule": {}}
            for r in fam:
                bc["rule"].setdefault(r[0], {})["indent_size"] = prng.choice([2, 3, 4, 8])
            d["base_config"] = bc
            d["meta"]["family_indent_sizes"] = len(fam)
        if fr and fr[0][1] != 0:
            ph, sub = fr[0][1], fr[0][2]
            if sub > min(r[2] for r in runner.RULES if r[1] == ph):
                d["schedules"].append({"perm_seed": None, "disable": sorted(r[0] for r in runner.RULES if r[1] == ph and r[2] == sub and r[0] != focus and not r[3]), "enable": [focus], "phase": {}, "passes": [{"all": True, "skip": []}], "focus": focus})
        if job.get("want_dep"):
            d["want_dep"] = True
        data = workload.read(p)
        d["sandbox"] = [workload.sb_entry("x.vhd", data)] + [f for f in d["sandbox"] if f["path"].startswith("lr/")]
        d["style"] = None if k % 3 else "jcl"
        d["meta"].update({"from": os.path.relpath(p, workload.REPO), "size": len(data), "digest": wire.digest(data), "tags": [], "style": d["style"]})
        d["hashseed_class"] = job.get("class", 0)
        V, res = judge(d, env)
        if V is None:
            out.skipped("file-not-accepted")
            continue
        if not isinstance(V, list):
            out.account(d, res, V, None, nontrivial=False)
            continue
        st = res["c06_stats"]
        out.account(d, res, V, (d["meta"]["digest"], d["style"], "canonical"), nontrivial=st["rules_with_violations_alone"] > 0 and st["analyses"] >= 50)
        out.stat("rule_reports_compared", st["compared"])
        out.stat("dependent_comparisons_excused", st["excused"])
        out.stat("rule_analyses_executed", st["analyses"])
        out.stat("breadth_files", 1)
        out.d["steps"] += st["analyses"]
        for w in st["writers"]:
            out.probe("analysis_wrote_token_attribute:" + w)
        if V:
            out.violation(res.get("c06_followup_desc") or d, V)
    return out.done()


def exotic_triples():
    """(rule, option, value) for every documented option value that is not a plain yes/no (the
    blank-line `style` family is left to the random option vectors: 76 rules x 3 values)."""
    dom = workload.option_domains()
    out = []
    for r in runner.RULES:
        if r[1] == 0:
            continue
        for o in r[6]:
            if o in dom and o not in ("case", "indent_size", "length", "style"):
                for v in dom[o]:
                    if v not in ("yes", "no"):
                        out.append((r[0], o, v))
    return out


def rule_input(uid):
    name, num = uid.rsplit("_", 1)
    p = os.path.join(workload.REPO, "tests", name, "rule_%s_test_input.vhd" % num)
    return p if os.path.exists(p) else None


def exotic_own_cases():
    """(file, rule, option, value): on every hand-written /verif/corpus design, every documented
    non-boolean option value (blank-line `style` family included) of every rule whose construct
    occurs in that design, one rule at a time."""
    dom = workload.option_domains()
    own = sorted(p for p, s in workload.corpus() if p.startswith(os.path.join(workload.HERE, "corpus")))
    out = []
    for p in own:
        text = workload.read(p).decode("latin-1").lower()
        for r in runner.RULES:
            if r[1] == 0:
                continue
            word = r[0].rsplit("_", 1)[0].split("_")[0]
            if word not in text:
                continue
            for o in r[6]:
                if o in dom and o not in ("case", "indent_size", "length"):
                    for v in dom[o]:
                        if v not in ("yes", "no", "require_blank_line", "no_blank_line"):
                            out.append((p, r[0], o, v))
    return out


def run_exotic(job, env):
    """One documented non-boolean option value on the rule's own test input: reference, canonical
    two-pass check (repeatability on the same objects), focus schedule."""
    out = common.JobResult(job)
    trs = [(None, u, o, v) for (u, o, v) in exotic_triples()] + exotic_own_cases()
    for own_file, uid, opt, val in trs[job["i"] :: job["of"]]:
        p = own_file or rule_input(uid)
        if p is None:
            out.skipped("no-test-input-for-rule")
            continue
        d = gen_desc(H(job["seed"], "exotic", uid, opt, val), 0)
        data = workload.read(p)
        d["sandbox"] = [workload.sb_entry("x.vhd", data)] + [f for f in d["sandbox"] if f["path"].startswith("lr/")]
        d["style"] = None
        d["base_config"] = {"rule": {uid: {opt: val}}}
        d["meta"].update({"from": os.path.relpath(p, workload.REPO), "size": len(data), "digest": wire.digest(data), "tags": [], "style": None, "focus_options": {opt: val}})
        d["hashseed_class"] = job.get("class", 0)
        V, res = judge(d, env)
        if V is None:
            out.skipped("file-not-accepted")
            continue
        if not isinstance(V, list):
            out.account(d, res, V, None, nontrivial=False)
            continue
        st = res["c06_stats"]
        out.account(d, res, V, (d["meta"]["digest"], uid, opt, val), nontrivial=st["analyses"] >= 50)
        out.stat("exotic_option_values", 1)
        out.stat("rule_reports_compared", st["compared"])
        out.stat("rule_analyses_executed", st["analyses"])
        out.d["steps"] += st["analyses"]
        if V:
            out.violation(res.get("c06_followup_desc") or d, V)
    return out.done()


def swarm_pairs():
    """(option, value) for every documented non-boolean option value, `style` family included."""
    dom = workload.option_domains()
    out = []
    for o in sorted(dom):
        if o in ("case", "indent_size", "length"):
            continue
        for v in dom[o]:
            if v not in ("yes", "no"):
                out.append((o, v))
    return out


def run_ownswarm(job, env):
    """The hand-written designs of /verif/corpus, each with ONE documented option value switched on
    for every rule that has the option (a 'swarm' configuration)."""
    out = common.JobResult(job)
    own = sorted(p for p, s in workload.corpus() if p.startswith(os.path.join(workload.HERE, "corpus")))
    cases = [(p, o, v) for p in own for (o, v) in swarm_pairs()]
    for p, opt, val in cases[job["i"] :: job["of"]]:
        d = gen_desc(H(job["seed"], "ownswarm", os.path.basename(p), opt, val), 1)
        data = workload.read(p)
        d["sandbox"] = [workload.sb_entry("x.vhd", data)] + [f for f in d["sandbox"] if f["path"].startswith("lr/")]
        d["style"] = None
        d["base_config"] = {"rule": {r[0]: {opt: val} for r in runner.RULES if r[1] != 0 and opt in r[6]}}
        d["meta"].update({"from": "corpus/" + os.path.basename(p), "size": len(data), "digest": wire.digest(data), "tags": [], "style": None, "swarm": {opt: val}})
        d["hashseed_class"] = job.get("class", 0)
        V, res = judge(d, env)
        if V is None:
            out.skipped("file-not-accepted")
            continue
        if not isinstance(V, list):
            out.account(d, res, V, None, nontrivial=False)
            continue
        st = res["c06_stats"]
        out.account(d, res, V, (d["meta"]["digest"], "swarm", opt, val), nontrivial=st["analyses"] >= 50)
        out.stat("swarm_configurations", 1)
        out.stat("rule_reports_compared", st["compared"])
        out.stat("rule_analyses_executed", st["analyses"])
        out.d["steps"] += st["analyses"]
        for w in (res["c06_R"].get("suspects") or []):
            out.probe("alone_reference_order_sensitive:" + w)
        if V:
            out.violation(res.get("c06_followup_desc") or d, V)
    return out.done()


def run_cli_repeat(job, env):
    """'Reports the same violations every time it is repeated', at CLI level: the same command in
    two pristine processes of different hash-seed classes (check, and separately --fix)."""
    from vsim.props import c15

    out = common.JobResult(job)
    d = c15.gen_batch(job["seed"])
    d["property"] = PROP
    d["policy"] = "sticky"
    d["hashseed_class"] = job.get("class", 0)
    keep = ("out/j.json", "out/j.xml")
    r1 = env.run(d, keep_files=keep)
    r2 = env.run(d, keep_files=keep, alt=True)
    for r in (r1, r2):
        if r["status"] in ("timeout", "harness-error"):
            out.account(d, r, r["status"], None, nontrivial=False)
            return out.done()
    V = []
    a = (r1["status"], (r1["end"] or {}).get("exit"), (r1["end"] or {}).get("exc"), runner.stream_of(r1)[1], r1["kept"], sorted((k, v["h"], v["mode"]) for k, v in r1["after"].items()))
    b = (r2["status"], (r2["end"] or {}).get("exit"), (r2["end"] or {}).get("exc"), runner.stream_of(r2)[1], r2["kept"], sorted((k, v["h"], v["mode"]) for k, v in r2["after"].items()))
    if a != b:
        what = [n for n, x, y in zip(("status", "exit", "exception", "report", "json/junit", "files"), a, b) if x != y]
        V.append({"class": "hash-seed-dependence", "target": None, "observed": {"reader": None, "writers": None, "differs": what, "hashseeds": [r1.get("hashseed"), r2.get("hashseed")]}})
    out.account(d, r1, V, ("cli-repeat", common.stable(d["argv"]), tuple(sorted(f["digest"] for f in d["meta"]["files"]))), nontrivial=r1["status"] == "exit")
    out.d["evals"] += 1
    out.probe("cli_run_repeated_in_other_hashseed_class")
    if V:
        out.violation(d, V)
    return out.done()


def run_job(job, env):
    if job["mode"] == "breadth":
        return run_breadth(job, env)
    if job["mode"] == "cli-repeat":
        return run_cli_repeat(job, env)
    if job["mode"] == "exotic":
        return run_exotic(job, env)
    if job["mode"] == "ownswarm":
        return run_ownswarm(job, env)
    out = common.JobResult(job)
    if job["mode"] == "regress":
        d = common.regress_desc(job)
    else:
        d = gen_desc(job["seed"], job["nsched"])
        if job.get("want_dep") or job["mode"] == "own":
            d["want_dep"] = True
        if job["mode"] == "own":
            # the handful of hand-written designs in /verif/corpus, each under the default rule set
            own = sorted(p for p, s in workload.corpus() if p.startswith(os.path.join(workload.HERE, "corpus")))
            p = own[job["i"] % len(own)]
            data = workload.read(p)
            d["sandbox"] = [workload.sb_entry("x.vhd", data)] + [f for f in d["sandbox"] if f["path"].startswith("lr/")]
            d["meta"].update({"from": "corpus/" + os.path.basename(p), "size": len(data), "digest": wire.digest(data), "tags": []})
    d["hashseed_class"] = job.get("class", 0)
    V, res = judge(d, env)
    if V is None:
        out.skipped("file-not-accepted")
        return out.done()
    if not isinstance(V, list):
        out.account(d, res, V, None, nontrivial=False)
        return out.done()
    st = res["c06_stats"]
    R = res["c06_R"]
    nsch = len([s for s in R["schedules"] if "passes" in s])
    out.d["evals"] += max(0, nsch - 1)  # every executed schedule is a case; account() adds one
    keys = [(d["meta"]["digest"], d["meta"]["style"], common.stable(s)) for s in d["schedules"]]
    nt = st["rules_with_violations_alone"] > 0
    out.account(d, res, V, keys[0], nontrivial=nt and st["analyses"] >= 50)
    if nt:
        for k, s in zip(keys[1:], R["schedules"][1:]):
            if "passes" in s and sum(len(p["ran"]) for p in s["passes"]) >= 50:
                out.d["keys"].append(common.stable(k))
    out.stat("rule_reports_compared", st["compared"])
    out.stat("dependent_comparisons_excused", st["excused"])
    out.stat("rule_analyses_executed", st["analyses"])
    out.stat("schedules_rejected_by_configuration", len([s for s in R["schedules"] if "error" in s]))
    out.d["steps"] += st["analyses"]
    for w in st["writers"]:
        out.probe("analysis_wrote_token_attribute:" + w)
    for w in R.get("suspects") or []:
        out.probe("alone_reference_order_sensitive:" + w)
    if job["mode"] == "repeat" and not V:
        # the same descriptor in a pristine process of another hash-seed class
        class _Alt:
            def run(self, dd, keep_files=()):
                return env.run(dd, keep_files=keep_files, alt=True)

        r2, R2 = run_parts(d, _Alt())
        out.probe("repeated_in_other_hashseed_class")
        if R2 is None or R2["alone"] != R["alone"] or [s.get("passes") for s in R2["schedules"]] != [s.get("passes") for s in R["schedules"]]:
            bad = None
            if R2 is not None and R2["alone"] != R["alone"]:
                bad = sorted(k for k in R["alone"] if R["alone"].get(k) != (R2["alone"] or {}).get(k))[:3]
            V.append({"class": "hash-seed-dependence", "target": bad[0] if bad else None, "observed": {"reader": bad[0] if bad else None, "writers": None, "hashseeds": [res.get("hashseed"), r2.get("hashseed")]}})
    if V:
        out.violation(res.get("c06_followup_desc") or d, V)
    if st.get("followup_schedules"):
        out.stat("writer_followup_schedules", st["followup_schedules"])
    if job["i"] < 1:
        s1 = d["schedules"][-1] if len(d["schedules"]) > 1 else {}
        out.sample({"file": d["meta"], "schedule_example": {"perm_seed": s1.get("perm_seed"), "disable_n": len(s1.get("disable", [])), "enable_n": len(s1.get("enable", [])), "phase": s1.get("phase"), "passes": s1.get("passes")}, "analysis_order_head": (R["schedules"][-1]["passes"][0]["ran"][:12] if len(R["schedules"]) > 1 and "passes" in R["schedules"][-1] else None), "stats": st})
    return out.done()


def replay_job(job, env):
    V, res = judge(job["desc"], env)
    if V is None:
        return {"status": "file-not-accepted", "violations": []}
    if not isinstance(V, list):
        return {"status": V, "violations": [], "fatal": "replay ended with %s" % V}
    return {"status": res["status"], "violations": V}


def minimize(v, env):
    """C06 descriptors shrink along their own dimensions: schedules, then the rule sets inside the
    failing schedule (the localisation run has already named the writers), then file lines."""
    desc0 = v["desc"]
    if desc0.get("engine") == "cli":
        return dict(v, shrink={"note": "cli-repeat descriptor: reported as found"})
    want = v["violations"][0]
    cls, reader = want["class"], want["observed"].get("reader")
    runs = [0]

    def still(d):
        runs[0] += 1
        V, _ = judge(d, env)
        if not isinstance(V, list):
            return None
        hit = [x for x in V if x["class"] == cls and x["observed"].get("reader") == reader]
        return hit or None

    cur = copy.deepcopy(desc0)
    log = []
    # keep only the canonical schedule and the failing one
    si = want["observed"].get("schedule")
    if si not in (None, 0) and si < len(cur["schedules"]):
        d = copy.deepcopy(cur)
        d["schedules"] = [cur["schedules"][0], cur["schedules"][si]]
        hit = still(d)
        if hit:
            cur, want = d, hit[0]
            log.append("kept schedule %d only" % si)
    # an explicit two-or-three rule order, when the writers are known
    ws = want["observed"].get("writers")
    if ws and reader and len(cur["schedules"]) == 2:
        d = copy.deepcopy(cur)
        s = d["schedules"][1]
        keep = set(ws + [reader])
        allr = [r[0] for r in runner.RULES if r[1] != 0]
        s["disable"] = sorted(u for u in allr if u not in keep)
        s["enable"] = sorted(keep)
        s["order"] = ws + [reader]
        s["perm_seed"] = None
        s["passes"] = [{"all": True, "skip": []}]
        hit = still(d)
        if hit:
            cur, want = d, hit[0]
            log.append("schedule reduced to rules %s" % (ws + [reader]))
    # lines of the file
    data = workload.sb_bytes(cur["sandbox"][0])
    lines = data.split(b"\n")
    chunk = max(1, len(lines) // 2)
    tries = 0
    while chunk >= 1 and tries < 40:
        i, progressed = 0, False
        while i < len(lines) and tries < 40:
            cand = lines[:i] + lines[i + chunk :]
            if not cand:
                i += chunk
                continue
            d = copy.deepcopy(cur)
            d["sandbox"][0]["b64"] = workload.sb_entry("x", b"\n".join(cand))["b64"]
            tries += 1
            hit = still(d)
            if hit:
                cur, want, lines, progressed = d, hit[0], cand, True
            else:
                i += chunk
        if not progressed:
            chunk //= 2
    log.append("file: %d -> %d lines" % (len(data.split(b"\n")), len(lines)))
    V, _ = judge(cur, env)
    return {"desc": cur, "violations": V if isinstance(V, list) and V else [want], "orig_desc": None, "shrink": {"runs": runs[0], "steps": log}}
