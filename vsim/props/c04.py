"""C04, clause 3 only - a clean file is never rewritten, a run without --fix never writes to its
inputs.  Decided from the recorded I/O history and inode/mtime snapshots of simulated CLI runs.
Clauses 1-2 (tokenizer / parse round trip) are pure functions and are NOT decided here; a cheap
by-product monitor on the read seam is reported in the evidence, nothing more.  DESIGN.md 4 (C04)."""
import copy
import errno
import json
import os

from vsim import runner, wire, workload
from vsim.decider import H, substream
from vsim.props import c15, common

PROP = "C04"
LEVEL = "exploration"
NEEDS_ALT = False
BUDGET = {"quick": 420, "thorough": 3 * 3600}
RULE = (
    "a case is one simulated run of the real CLI in which no input file may be touched: (a) any run without --fix (batches, jobs, "
    "formats, -ap, --json/--junit, configuration, stdin, random SimPool schedule, optional read-side I/O errors), (b) --fix with nothing "
    "fixable by construction (global fixable:false / disable:true / warning severity, empty --fix_only, -fp 0, --fix_only naming only unfixable rules), "
    "(c) --fix on a file that the same tree has fixed until -ap reports zero violations, or on a corpus file under a configuration that disables "
    "exactly the rules reporting on it, (d) clean files protected inside a batch in which other files are fixed, (r) class (a) on inputs that "
    "stress the read path, with the read monitor (emit(parse(x)) == x) as an additional verdict. Non-trivial = at least one input file was read and the run ended normally; for (b)/(c) the "
    "--fix path was entered for at least one accepted file. Distinct = distinct (class, multiset of file digests, option set, schedule hash)."
)
ASSUMPTIONS = [
    "only clause 3 of C04 is claimed; clauses 1-2 (join(tokenize(s)) == s, emit(parse(x)) == x) are pure and not decided by this family",
    "class (c) relies on the property's own reading: no reported violation at all implies no fixable violation",
    "requested output files (--json, --junit, -oc) and <x>.bak with --backup are the only files a run may create",
]
REAL_COMPONENTS = c15.REAL_COMPONENTS
STUBBED_COMPONENTS = c15.STUBBED_COMPONENTS

MUTATING = {"open-w", "write", "write-raw", "close", "chmod", "replace", "remove", "truncate", "utime", "copy-open", "copy-data", "copy-stat", "link", "mkdir", "rmdir"}
READ_FAULTS = {"open-r": [["err", errno.ENOENT], ["err", errno.EACCES], ["err", errno.EMFILE]], "read": [["err", errno.EIO]], "stat": [["err", errno.EACCES]]}

NOFIX_CFGS = {
    "fixable-false": {"rule": {"global": {"fixable": False}}},
    "disable-true": {"rule": {"global": {"disable": True}}},
    "all-warnings": {"rule": {"global": {"severity": "Warning"}}},
}


FIX_ONLY_NOTHING = {"fix": {"rule": {}}}


def dirty_of(desc):
    """Class (d) only: the files of the batch that are expected to be fixed (not protected)."""
    return set((desc.get("meta") or {}).get("dirty") or [])


def inputs_of(desc):
    d = dirty_of(desc)
    return sorted(f["path"] for f in desc["sandbox"] if f["path"] not in d)


def belongs_to_dirty(desc, p):
    for d in dirty_of(desc):
        if p == d or (os.path.dirname(p) == os.path.dirname(d) and os.path.basename(p).startswith(os.path.basename(d) + ".")):
            return True
    return False


def allowed_new(desc):
    a = desc["argv"]
    ok = set()
    for opt in ("--json", "-js", "--junit", "-j", "-oc", "--output_configuration", "--quality_report"):
        if opt in a:
            ok.add(os.path.normpath(a[a.index(opt) + 1]))
    if ("--backup" in a or "-b" in a) and "--fix" in a:
        for f in desc["sandbox"]:
            if f["path"].endswith(".vhd"):
                ok.add(f["path"] + ".bak")
    return ok


def evaluate(desc, res):
    V = []
    seen = set()

    def add(cls, target, observed):
        if (cls, target) in seen:
            return
        seen.add((cls, target))
        V.append({"class": cls, "target": target, "observed": observed})

    inputs = set(inputs_of(desc))
    okn = allowed_new(desc)
    by_file = {}
    for rec in res["records"]:
        if rec[0] == "out" and rec[2] == "sim" and rec[3].startswith("fixer "):
            w = rec[3].split()
            by_file.setdefault(os.path.normpath(w[2]) if len(w) > 2 else "?", set()).add(w[1])
    for o in runner.ops_of(res):
        if o["kind"] in MUTATING and o["kind"] != "close":
            p = os.path.normpath(o["path"])
            src = o["extra"] if o["kind"] in ("replace", "link") else None
            if belongs_to_dirty(desc, p):
                continue
            if p in inputs and p not in okn:
                add("input-mutated", p, {"op": o["kind"], "proc": o["proc"], "task": o["task"], "n": o["n"], "from": src})
            elif p not in inputs and p not in okn and o["performed"] and not o["err"] and o["kind"] in ("open-w", "copy-open", "replace", "link", "mkdir"):
                add("stray-file-created", p, {"op": o["kind"], "proc": o["proc"], "task": o["task"], "n": o["n"]})
    for p in inputs:
        b, a = res["before"].get(p), res["after"].get(p)
        if a is None:
            add("input-mutated", p, {"op": "gone"})
            continue
        if (a["h"], a["mode"]) != (b["h"], b["mode"]):
            add("input-mutated", p, {"op": "content-or-mode", "before": [b["h"], b["mode"]], "after": [a["h"], a["mode"]]})
        elif (a["ino"], a["mtime"]) != (b["ino"], b["mtime"]):
            add("inode-or-mtime-changed", p, {"inode_changed": a["ino"] != b["ino"], "mtime_changed": a["mtime"] != b["mtime"]})
    for p in res["after"]:
        if p not in inputs and p not in okn and not belongs_to_dirty(desc, p):
            add("stray-file-created", p, {"op": "present-at-end"})
    # by-product monitor on the read seam (clauses 1-2; not part of the claim, reported when seen)
    for rec in res["records"]:
        if rec[0] == "out" and rec[2] == "sim" and rec[3].startswith("lossless-fail "):
            w = rec[3].rstrip("\n").split(" ", 2)
            add("read-not-lossless", os.path.normpath(w[1]), {"what": w[2] if len(w) > 2 else ""})
    allb = {r[0]: list(r[7]) for r in runner.RULES}
    for v in V:
        # the rules whose fix() changed the file this violation is about (its own name, or the
        # temporary / backup sibling named after it)
        t = v["target"]
        owner = None
        for p in inputs:
            if t == p or (os.path.dirname(t) == os.path.dirname(p) and os.path.basename(t).startswith(os.path.basename(p) + ".")):
                owner = p
        fx = sorted(by_file.get(owner, set())) if owner else sorted(set().union(*by_file.values())) if by_file else []
        v["observed"]["fixers"] = fx
        v["observed"]["fixer_bases"] = {u: allb.get(u, []) for u in fx}
        v["observed"]["member"] = (desc.get("meta") or {}).get("class")
    return V


# ---------------------------------------------------------------------------------------------
# workloads


def gen_a(seed):
    """Any run without --fix (reuses the C15 batch / stdin generators, stripped of --fix)."""
    rng = substream(seed, "c04a")
    if rng.random() < 0.15:
        d = c15.gen_stdin(seed)
    else:
        d = c15.gen_batch(seed)
    a = []
    skip = 0
    for x in d["argv"]:
        if skip:
            skip -= 1
            continue
        if x in ("--fix", "--backup"):
            continue
        if x == "-fp":
            skip = 1
            continue
        a.append(x)
    d["argv"] = a
    d["property"] = PROP
    d["meta"]["class"] = "a"
    d["meta"]["fix"] = False
    if rng.random() < 0.1:
        d["argv"] = ["-oc", "out/conf.json"] + d["argv"]
    # a batch stopped by an invalid per-file configuration may ask for a JUnit file too (the pinned
    # tree dies with a traceback there - which must not touch an input either)
    if d["meta"].get("stop") and "--junit" not in d["argv"] and rng.random() < 0.6:
        d["argv"] = ["--junit", "out/j.xml"] + d["argv"]
    # options that only mean something together with --fix are still legal without it
    if rng.random() < 0.25:
        d["argv"] = ["-fp", str(rng.randint(1, 7))] + d["argv"]
    if rng.random() < 0.08 and "--stdin" not in d["argv"]:
        d["sandbox"].append(workload.sb_entry("fixonly.json", common.json_bytes({"fix": {"rule": {"whitespace_001": ["all"]}}})))
        d["argv"] = ["--fix_only", "fixonly.json"] + d["argv"]
    if rng.random() < 0.08:
        d["argv"] = ["--force_fix"] + d["argv"]
    if rng.random() < 0.12:
        # asking for a backup without --fix is refused today; whatever a tree does with it, a run
        # without --fix creates nothing next to its inputs
        d["argv"] = ["--backup"] + d["argv"]
    return d


ODD = [b"\x0c", b"\x0b", b"\x1c", b"\x1d", b"\x1e", b"\xc2\x85", b"\xe2\x80\xa8", b"\xe2\x80\xa9", b"\t", b"\xc2\xa0", b"\xef\xbb\xbf", b"\xe2\x82\xac", b"\xf0\x9f\x98\x80"]


def read_stress(rng, data):
    """Inputs that exercise the read path (S1): encodings, line-end conventions, buffer boundaries.
    Only comments and line terminators are touched, so an accepted design stays accepted."""
    tags = []
    lines = data.replace(b"\r\n", b"\n").replace(b"\r", b"\n").split(b"\n")
    final_nl = lines and lines[-1] == b""
    if final_nl:
        lines.pop()
    enc = rng.choice(["utf8", "utf8", "latin1", "latin1", "ascii"])
    n_ins = rng.randint(1, 4)
    for j in range(n_ins):
        # positions: anywhere, or biased to the tail (beyond the first 8 KiB / 64 KiB of a long file)
        i = rng.randrange(len(lines) + 1) if rng.random() < 0.5 else len(lines) - rng.randrange(min(len(lines), 4) or 1)
        if enc == "latin1":
            c = b"-- caf\xe9 \xb5s \xdf" + bytes([rng.randrange(0xA0, 0x100)])
        elif enc == "utf8":
            c = b"-- " + rng.choice(ODD) + b" x " + rng.choice(ODD)
        else:
            c = b"-- plain"
        lines.insert(max(0, i), c)
    tags.append(enc)
    if rng.random() < 0.3:
        # one very long comment: a single line larger than the 8 KiB text buffer
        lines.insert(rng.randrange(len(lines) + 1), b"-- " + b"x" * rng.choice([8189, 8192, 9000, 70000]))
        tags.append("long-line")
    if enc == "utf8" and rng.random() < 0.5:
        # a multi-byte character straddling byte offset 8192 (or 65536)
        tot, k = 0, None
        for k, ln in enumerate(lines):
            tot += len(ln) + 1
            if tot > 600:
                break
        target = rng.choice([8192, 8192, 65536])
        pre = sum(len(ln) + 1 for ln in lines[:k])
        pad = target - pre - 3 - rng.choice([1, 2])
        if pad > 0:
            lines.insert(k, b"--" + b"=" * pad + b"\xe2\x82\xac" + b"!")
            tags.append("straddle%d" % target)
    le = rng.choice(["lf", "lf", "crlf", "cr", "mixed"])
    seps = {"lf": [b"\n"], "crlf": [b"\r\n"], "cr": [b"\r"], "mixed": [b"\n", b"\r\n", b"\r"]}[le]
    out = b""
    for ln in lines:
        out += ln + rng.choice(seps)
    tags.append(le)
    r = rng.random()
    if r < 0.2:
        out = out[: len(out) - (2 if out.endswith(b"\r\n") else 1)]
        tags.append("nofinalnl")
    elif r < 0.3:
        out += rng.choice(seps)
        tags.append("extra-final-nl")
    return tags, out


def gen_r(seed):
    """Class (a) runs (no --fix) on inputs that stress the read path; the read monitor rides along."""
    rng = substream(seed, "c04r")
    sandbox, names, meta = [], [], []
    for i in range(rng.randint(1, 3)):
        name = "src/r%d.vhd" % i
        label, data = workload.pick_bytes(rng, rng.choice(["small"] * 3 + ["mid"] * 3 + ["big"] * 3 + ["huge"]))
        tags, data = read_stress(rng, data)
        sandbox.append(workload.sb_entry(name, data, rng.choice(workload.MODES)))
        names.append(name)
        meta.append({"path": name, "from": label, "tags": tags, "size": len(data), "digest": wire.digest(data)})
    argv = ["-p", str(rng.choice([1, 1, 2, 3]))]
    if rng.random() < 0.4:
        argv.append("-ap")
    argv += ["-of", rng.choice(["vsg", "syntastic", "summary"])]
    style = rng.choice(workload.STYLES)
    if style:
        argv += ["--style", style]
    if rng.random() < 0.3:
        argv += ["--json", "out/j.json"]
    argv += ["-f"] + names
    return _desc(seed, rng, sandbox, argv, {"class": "a", "read_focus": True, "files": meta, "style": style})


def gen_b(seed):
    rng = substream(seed, "c04b")
    k = rng.randint(1, 4)
    sandbox, names, meta = [], [], []
    for i in range(k):
        name = "src/f%d.vhd" % i
        label, data = workload.pick_bytes(rng, rng.choice(["small"] * 6 + ["mid"] * 3 + ["big"]))
        tags, data = workload.perturb_bytes(rng, data, noise=0.6)
        sandbox.append(workload.sb_entry(name, data, rng.choice(workload.MODES)))
        names.append(name)
        meta.append({"path": name, "from": label, "tags": tags, "size": len(data), "digest": wire.digest(data)})
    which = rng.choice(sorted(NOFIX_CFGS) + ["fix-only-empty", "fix-phase-0", "fix-only-unfixable", "fix-only-unfixable"])
    argv = ["-p", str(rng.choice([1, 1, 2, 3])), "--fix"]
    if rng.random() < 0.3:
        argv.append("--backup")
    # no --style here: a style's per-rule settings take precedence over [rule][global]
    if which == "fix-only-empty":
        sandbox.append(workload.sb_entry("fixonly.json", common.json_bytes(FIX_ONLY_NOTHING)))
        argv += ["--fix_only", "fixonly.json", "-f"] + names
    elif which == "fix-only-unfixable":
        # --fix_only restricts what is fixed, it never makes something fixable: the list names every
        # rule (as an editor passing back the ids of a report would), while nothing is fixable -
        # either because the configuration says `fixable: false` for everything, or because the
        # list is limited to rules that are not fixable by design (the tree's own `fixable` flag)
        if rng.random() < 0.5:
            ids = [r[0] for r in runner.RULES if r[1] != 0]
            sandbox.append(workload.sb_entry("cfg.json", common.json_bytes(NOFIX_CFGS["fixable-false"])))
            argv += ["-c", "cfg.json"]
        else:
            ids = [r[0] for r in runner.RULES if r[1] != 0 and not r[4]]
        sandbox.append(workload.sb_entry("fixonly.json", common.json_bytes({"fix": {"rule": {u: ["all"] for u in ids}}})))
        argv += ["--fix_only", "fixonly.json", "-f"] + names
    elif which == "fix-phase-0":
        argv += ["-fp", "0", "-f"] + names
    else:
        sandbox.append(workload.sb_entry("cfg.json", common.json_bytes(NOFIX_CFGS[which])))
        argv += ["-c", "cfg.json", "-f"] + names
    return _desc(seed, rng, sandbox, argv, {"class": "b", "config": which, "files": meta, "style": None})


def _desc(seed, rng, sandbox, argv, meta):
    return {
        "property": PROP,
        "engine": "cli",
        "run_seed": seed,
        "umask": rng.choice(workload.UMASKS),
        "cpu_count": rng.randint(1, 4),
        "dirsalt": rng.randrange(1 << 30),
        "sched_seed": seed,
        "sandbox": sandbox,
        "dirs": ["out"],
        "argv": argv,
        "stdin": None,
        "faults": [],
        "decisions": None,
        "meta": meta,
    }


def make_clean(rng, env, style, cfg=None):
    """A file that is clean under (style, cfg) on this tree: fix a corpus file (up to 4 passes)
    under that configuration and keep it only if `vsg -ap` under the same configuration then reports
    nothing at all.  With a skip_phase configuration the file may still violate rules of the skipped
    phases - VSG does not report them, so --fix must not touch them either."""
    label, data = workload.pick_bytes(rng, rng.choice(["small"] * 6 + ["mid"] * 3))
    name = "src/c.vhd"
    opts = ["--style", style] if style else []
    extra = []
    if cfg:
        extra = [workload.sb_entry("cfg.json", common.json_bytes(cfg))]
        opts = opts + ["-c", "cfg.json"]
    for _ in range(4):
        d = _desc(0, rng, [workload.sb_entry(name, data)] + extra, ["-p", "1", "--fix"] + opts + ["-f", name], {})
        r = env.run(d, keep_files=(name,))
        if r["status"] != "exit" or r["kept"].get(name) is None:
            return None
        new = r["kept"][name]
        c = _desc(0, rng, [workload.sb_entry(name, new)] + extra, ["-p", "1", "-ap", "-of", "syntastic"] + opts + ["-f", name], {})
        rc = env.run(c)
        if rc["status"] != "exit":
            return None
        streams = runner.stream_of(rc)[0]
        if not rc["end"]["exit"] and streams["o"].strip() == "" and streams["e"].strip() == "":
            if cfg and cfg.get("skip_phase") and rng.random() < 0.8:
                # give the skipped phases something to hide: edits that only rules of those phases
                # object to, planted AFTER cleaning (the tree's own --fix is not trusted to leave
                # them alone) and kept only if the report stays empty under the configuration
                planted = workload.plant_violations(rng, new, 0.3, phases=set(cfg["skip_phase"]))
                if planted != new:
                    c3 = _desc(0, rng, [workload.sb_entry(name, planted)] + extra, ["-p", "1", "-ap", "-of", "syntastic"] + opts + ["-f", name], {})
                    r3 = env.run(c3)
                    s3 = runner.stream_of(r3)[0]
                    if r3["status"] == "exit" and not r3["end"]["exit"] and s3["o"].strip() == "" and s3["e"].strip() == "":
                        return label + "+hidden-violations", planted
            if rng.random() < 0.5:
                # the same clean design with layout noise inside a code-tag region: still reported
                # violation-free (verified by is_clean in judge), so still "no fixable violation"
                nl = b"\r\n" if b"\r\n" in new else b"\n"
                noisy = b"-- vsg_off" + nl + workload.layout_noise(rng, new, 0.3) + (b"" if new.endswith(nl) else nl) + b"-- vsg_on" + nl
                c2 = _desc(0, rng, [workload.sb_entry(name, noisy)] + extra, ["-p", "1", "-ap", "-of", "syntastic"] + opts + ["-f", name], {})
                r2 = env.run(c2)
                s2 = runner.stream_of(r2)[0]
                if r2["status"] == "exit" and not r2["end"]["exit"] and s2["o"].strip() == "" and s2["e"].strip() == "":
                    return label + "+code-tagged-noise", noisy
            return label, new
        if new == data:
            return None
        data = new
    return None


def gen_c(seed, env):
    rng = substream(seed, "c04c")
    style = rng.choice(workload.STYLES)
    cfg = {}
    if rng.random() < 0.35:
        # configuration that names no rule: linesep and/or skipped phases
        if rng.random() < 0.6:
            cfg["linesep"] = rng.choice(["\n", "\r\n"])
        if rng.random() < 0.6:
            cfg["skip_phase"] = sorted(rng.sample(range(1, 8), rng.randint(1, 3)))
    k = rng.randint(1, 3)
    sandbox, names, meta = [], [], []
    for i in range(k):
        got = make_clean(rng, env, style, cfg or None)
        if got is None:
            continue
        label, data = got
        # the same clean text with other line ends / without the final newline is still clean
        r = rng.random()
        if r < 0.2:
            data = data.replace(b"\r\n", b"\n").replace(b"\n", b"\r\n")
            label += "+crlf"
        elif r < 0.35 and data.endswith(b"\n"):
            data = data.rstrip(b"\r\n")
            label += "+nofinalnl"
        name = "src/f%d.vhd" % i
        sandbox.append(workload.sb_entry(name, data, rng.choice(workload.MODES)))
        names.append(name)
        meta.append({"path": name, "from": "clean(" + label + ")", "tags": [], "size": len(data), "digest": wire.digest(data)})
    if not names:
        return None
    argv = ["-p", str(rng.choice([1, 1, 2])), "--fix"]
    if rng.random() < 0.3:
        argv.append("--backup")
    if style:
        argv += ["--style", style]
    if rng.random() < 0.2:
        argv += ["-fp", str(rng.randint(1, 7))]
    if cfg:
        sandbox.append(workload.sb_entry("cfg.json", common.json_bytes(cfg)))
        argv += ["-c", "cfg.json"]
    argv += ["-f"] + names
    return _desc(seed, rng, sandbox, argv, {"class": "c", "files": meta, "style": style})


def reporters(env, name, data, opts):
    """Rules that report on this file under these options (solo `-ap --json` run of the same tree)."""
    key = ("c04rep", wire.digest(data), tuple(opts))
    if key not in env.cache:
        d = _desc(0, substream(0, "x"), [workload.sb_entry(name, data)], ["-p", "1", "-ap", "--json", "out/learn.json"] + opts + ["-f", name], {})
        r = env.run(d, keep_files=("out/learn.json",))
        ids = None
        if r["status"] == "exit":
            try:
                ids = set()
                for fe in json.loads(r["kept"]["out/learn.json"].decode())["files"]:
                    for v in fe["violations"]:
                        ids.add(v["rule"])
            except Exception:
                ids = None
        env.cache[key] = None if ids is None else sorted(ids)
    return env.cache[key]


def gen_e(seed, env):
    """Class (c) by configuration: corpus files as they are (violations and all) under a
    configuration that disables exactly the rules that report on them - `vsg -ap -c cfg` is silent,
    so nothing is fixable and --fix must leave the files alone.  Whatever a fix does for a rule
    the user switched off shows up here."""
    rng = substream(seed, "c04e")
    style = rng.choice(workload.STYLES)
    opts = ["--style", style] if style else []
    sandbox, names, meta, off = [], [], [], set()
    for i in range(rng.randint(1, 3)):
        label, data = workload.pick_bytes(rng, rng.choice(["small"] * 6 + ["mid"] * 3))
        if rng.random() < 0.4:
            data = workload.plant_violations(rng, data, 0.15)
            label += "+planted"
        name = "src/e%d.vhd" % i
        rep = reporters(env, name, data, opts)
        if rep is None:
            continue
        off.update(rep)
        sandbox.append(workload.sb_entry(name, data, rng.choice(workload.MODES)))
        names.append(name)
        meta.append({"path": name, "from": "as-is(" + label + ")", "tags": ["reporters-disabled"], "size": len(data), "digest": wire.digest(data)})
    if not names or not off:
        return None
    cfg = {"rule": {u: {"disable": True} for u in sorted(off)}}
    if rng.random() < 0.2:
        cfg["linesep"] = "\n"
    sandbox.append(workload.sb_entry("cfg.json", common.json_bytes(cfg)))
    argv = ["-p", str(rng.choice([1, 1, 2])), "--fix"]
    if rng.random() < 0.3:
        argv.append("--backup")
    argv += opts
    if rng.random() < 0.15:
        argv += ["-fp", str(rng.randint(3, 7))]
    argv += ["-c", "cfg.json", "-f"] + names
    return _desc(seed, rng, sandbox, argv, {"class": "c", "by_config": True, "disabled": len(off), "files": meta, "style": style})


def only_disables(cfg):
    """A configuration that does nothing but switch rules off (and, optionally, name linesep / skip_phase)."""
    if not set(cfg) <= {"linesep", "skip_phase", "rule"}:
        return False
    return all(v == {"disable": True} for v in (cfg.get("rule") or {}).values())


def gen_d(seed, env):
    """Mixed --fix batch: files that are clean (protected: must stay untouched) next to files with
    fixable violations (which get fixed in the same run, by the same workers)."""
    rng = substream(seed, "c04d")
    style = rng.choice(workload.STYLES)
    sandbox, names, meta, dirty = [], [], [], []
    for i in range(rng.randint(1, 2)):
        got = make_clean(rng, env, style)
        if got is None:
            continue
        label, data = got
        name = "src/c%d.vhd" % i
        sandbox.append(workload.sb_entry(name, data, rng.choice(workload.MODES)))
        names.append(name)
        meta.append({"path": name, "from": "clean(" + label + ")", "tags": [], "size": len(data), "digest": wire.digest(data)})
    if not names:
        return None
    for i in range(rng.randint(1, 3)):
        label, data = workload.pick_bytes(rng, rng.choice(["small"] * 6 + ["mid"] * 2))
        data = workload.plant_violations(rng, data, 0.2)
        name = "src/d%d.vhd" % i
        sandbox.append(workload.sb_entry(name, data, rng.choice(workload.MODES)))
        names.append(name)
        dirty.append(name)
        meta.append({"path": name, "from": "dirty(" + label + ")", "tags": ["planted"], "size": len(data), "digest": wire.digest(data)})
    rng.shuffle(names)
    argv = ["-p", str(rng.choice([1, 1, 2, 3])), "--fix"]
    if rng.random() < 0.3:
        argv.append("--backup")
    if style:
        argv += ["--style", style]
    argv += ["-f"] + names
    return _desc(seed, rng, sandbox, argv, {"class": "d", "files": meta, "style": style, "dirty": dirty})


def is_clean(desc, env):
    """Class (c) membership: every input file is reported violation-free by `vsg -ap` under the
    same style on this tree."""
    a = desc["argv"]
    opts = ["--style", a[a.index("--style") + 1]] if "--style" in a else []
    extra = []
    if "-c" in a:
        cname = a[a.index("-c") + 1]
        extra = [f for f in desc["sandbox"] if f["path"] == cname]
        opts += ["-c", cname]
    for f in desc["sandbox"]:
        if not f["path"].endswith(".vhd") or f["path"] in dirty_of(desc):
            continue
        key = ("c04clean", f["b64"], tuple(opts), tuple(e["b64"] for e in extra))
        if key not in env.cache:
            c = _desc(0, substream(0, "x"), [workload.sb_entry(f["path"], workload.sb_bytes(f))] + extra, ["-p", "1", "-ap", "-of", "syntastic"] + opts + ["-f", f["path"]], {})
            rc = env.run(c)
            st = runner.stream_of(rc)[0]
            env.cache[key] = rc["status"] == "exit" and not rc["end"]["exit"] and st["o"].strip() == "" and st["e"].strip() == ""
        if not env.cache[key]:
            return False
    return True


def member(desc, env):
    """Which no-touch class the descriptor belongs to (None: it is not a C04 case at all - e.g. a
    shrinking candidate that dropped the configuration which made the run a no-fix run)."""
    a = desc["argv"]
    if "--fix" not in a:
        return "a"
    if "--style" not in a and "-c" not in a:
        if "--fix_only" in a:
            name = a[a.index("--fix_only") + 1]
            for f in desc["sandbox"]:
                if f["path"] == name and workload.sb_bytes(f) == common.json_bytes(FIX_ONLY_NOTHING):
                    return "b"
                if f["path"] == name:
                    try:
                        listed = set(json.loads(workload.sb_bytes(f).decode())["fix"]["rule"])
                    except Exception:
                        return None
                    if listed and listed <= {r[0] for r in runner.RULES if not r[4]}:
                        return "b"  # only rules that are not fixable by design are selected
        if "-fp" in a and a[a.index("-fp") + 1] == "0":
            return "b"
    if "-c" in a:
        name = a[a.index("-c") + 1]
        for f in desc["sandbox"]:
            if f["path"] == name:
                try:
                    cfg = json.loads(workload.sb_bytes(f).decode())
                except Exception:
                    return None
                if "--style" not in a and any(cfg == c for c in NOFIX_CFGS.values()):
                    return "b"
                if only_disables(cfg) and (desc.get("meta") or {}).get("class") == "c" and is_clean(desc, env):
                    return "c"
        return None
    if (desc.get("meta") or {}).get("class") == "c" and is_clean(desc, env):
        return "c"
    if (desc.get("meta") or {}).get("class") == "d" and is_clean(desc, env):
        # mixed batch: the clean files are protected, the others may be fixed
        if any(f["path"].endswith(".vhd") and f["path"] not in dirty_of(desc) for f in desc["sandbox"]):
            return "d"
    return None


def judge(desc, env):
    if member(desc, env) is None:
        return None, None
    desc = dict(desc, probe_fixers=True)
    res = env.run(desc)
    if res["status"] in ("timeout", "harness-error"):
        return res["status"], res
    return evaluate(desc, res), res


def plan(tier, seed):
    if tier == "quick":
        na, nb, nc, nd, nr, ne = 250, 90, 70, 40, 60, 70
    else:
        na, nb, nc, nd, nr, ne = 6000, 2500, 1500, 1000, 2500, 2500
    jobs = []
    for m, n in (("a", na), ("b", nb), ("c", nc), ("d", nd), ("r", nr), ("e", ne)):
        for i in range(n):
            jobs.append({"prop": PROP, "mode": m, "i": i, "seed": H(seed, tier, PROP, m, i)})
    jobs += common.regress_jobs(PROP, 4)
    return jobs


def _shape(desc, res):
    m = desc["meta"]
    return (m.get("class"), tuple(sorted(f["digest"] for f in m["files"])), tuple(a for a in desc["argv"] if not a.endswith(".vhd")), common.trace_hash(res))


def run_job(job, env):
    out = common.JobResult(job)
    seed, mode = job["seed"], job["mode"]
    if mode == "regress":
        d = common.regress_desc(job)
    elif mode == "a":
        d = gen_a(seed)
    elif mode == "b":
        d = gen_b(seed)
    elif mode == "r":
        d = gen_r(seed)
    else:
        d = gen_d(seed, env) if mode == "d" else gen_e(seed, env) if mode == "e" else gen_c(seed, env)
        if d is None:
            out.skipped("no-clean-file-obtained")
            return out.done()
    d["hashseed_class"] = job.get("class", 0)
    if mode in ("a", "r"):
        # read-side faults: the clause must hold for *any* run without --fix
        rng = substream(seed, "faults")
        if rng.random() < 0.3:
            base = env.run(d)
            reads = [o for o in runner.ops_of(base) if o["kind"] in READ_FAULTS and o["task"] != "main"]
            if reads:
                o = rng.choice(reads)
                d["faults"] = [{"proc": o["task"], "n": o["n"], "kind": o["kind"], "fault": rng.choice(READ_FAULTS[o["kind"]])}]
    V, res = judge(d, env)
    if V is None:
        out.skipped("not-a-no-touch-case")
        return out.done()
    if not isinstance(V, list):
        out.account(d, res, V, None, nontrivial=False)
        return out.done()
    reads = [o for o in runner.ops_of(res) if o["kind"] == "open-r" and o["path"].endswith(".vhd")]
    nt = res["status"] == "exit" and (bool(reads) or d.get("channel") == "stdin")
    out.account(d, res, V, _shape(d, res), nontrivial=nt)
    out.stat("class_" + str(d["meta"].get("class")), 1)
    if res["status"] == "exit" and "--fix" in d["argv"]:
        out.probe("fix_path_entered_without_write_back")
    if any(o["kind"] == "copy-open" for o in runner.ops_of(res)):
        out.probe("backup_taken_of_untouched_file")
    if V:
        out.violation(d, V)
    if job["i"] < 1:
        out.sample({"class": d["meta"].get("class"), "argv": d["argv"], "files": d["meta"]["files"][:6], "faults": d["faults"], "io_ops": [[o["proc"], o["kind"], o["path"]] for o in runner.ops_of(res)][:30]})
    return out.done()


def replay_job(job, env):
    V, res = judge(job["desc"], env)
    if V is None:
        return {"status": "not-a-no-touch-case", "violations": []}
    if not isinstance(V, list):
        return {"status": V, "violations": [], "fatal": "replay ended with %s" % V}
    return {"status": res["status"], "violations": V}
