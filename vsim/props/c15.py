"""C15 - a file's result does not depend on jobs, order, neighbours or input channel.
See DESIGN.md section 4 (C15)."""
import copy
import json
import os
import re

from vsim import runner, wire, workload
from vsim.decider import H, substream
from vsim.props import common

PROP = "C15"
LEVEL = "exploration"
NEEDS_ALT = True
BUDGET = {"quick": 420, "thorough": 3 * 3600}
RULE = (
    "a case is one simulated batch run of the real CLI (2-8 files, random order, jobs 1..4 or default, --fix/--backup | plain | -ap, "
    "output format, style, --json/--junit, configuration stack with per-file sections, literal names or globs with permuted directory "
    "order, random SimPool schedule) compared file by file with solo runs of the same tree in a pristine process of another hash-seed "
    "class; or one --stdin run compared with the named-file run; or (optleak) two or three copies of one design of which only the first "
    "gets a documented option value through a per-file section. Non-trivial = at least 2 files and (jobs = 1 or some worker handled "
    ">= 2 tasks or >= 1 context switch), or a stdin/named pair whose named run reports >= 1 violation; distinct = distinct (multiset of "
    "file digests, option set, schedule-trace hash)."
)
ASSUMPTIONS = [
    "the solo run (-p 1, one file, pristine process) of the same tree is the reference: a defect that changes solo and batch results identically is invisible",
    "the GitLab quality report is not compared (its fingerprint contains a running counter by design)",
    "files whose solo run ends in an unhandled exception are excluded from batches (C19's subject)",
    "after VSG itself stops a batch (configuration error) later files may be processed or not; they must be untouched/unreported or exactly the solo result",
    "duplicate targets only appear in batches without --fix",
    "with --debug / --force_fix the diagnostics printed straight from the processing worker are compared as a multiset of lines (their position between other files' reports is schedule dependent on the pinned tree)",
]
REAL_COMPONENTS = ["vsg.__main__.main and everything below it", "pickle transport of pool tasks/results", "kernel tmpfs file system", "forked worker processes with their own module state"]
STUBBED_COMPONENTS = ["multiprocessing.Pool scheduling (SimPool + Decider)", "clock/hostname (simulated, so JUnit headers are comparable)", "directory order of glob/listdir (seeded permutation)", "stdin/stdout/stderr (captured, tagged)", "os.cpu_count (seeded 1..4)", "advisory file locks (a blocking flock/lockf becomes a loop of scheduling points)"]

TC_RE = re.compile(r"  <testcase .*?</testcase>", re.S)


# ---------------------------------------------------------------------------------------------
# workload


def gen_config(rng, names, allow_stop=True):
    """Returns (config dict or None, name of the file whose per-file section is broken or None)."""
    if rng.random() < 0.45:
        return None, None
    cfg = {}
    rules = [r for r in runner.RULES if r[1] != 0]
    rule = {}
    r = rng.random()
    if r < 0.25:
        rule["global"] = {"indent_size": rng.choice([2, 3, 4])}
    for _ in range(rng.randint(0, 6)):
        uid = rng.choice(rules)[0]
        k = rng.random()
        if k < 0.5:
            rule[uid] = {"disable": rng.random() < 0.7}
        elif k < 0.75:
            rule[uid] = {"severity": rng.choice(["Warning", "Error", "Todo"])}
            cfg.setdefault("severity", {"Todo": {"type": rng.choice(["warning", "error"])}})
        else:
            rule[uid] = {"fixable": False}
    if rule:
        cfg["rule"] = rule
    stop = None
    if rng.random() < 0.6:
        sect = []
        picks = rng.sample(names, rng.randint(1, min(3, len(names))))
        for n in picks:
            rr = {}
            for _ in range(rng.randint(1, 3)):
                rr[rng.choice(rules)[0]] = {"disable": rng.random() < 0.8}
            if rng.random() < 0.2:
                rr["length_001"] = {"disable": False, "severity": "Error", "length": rng.choice([40, 60, 80])}
            sect.append({n: {"rule": rr}})
        if allow_stop and rng.random() < 0.12:
            stop = rng.choice(names)
            sect.append({stop: {"rule": {"nosuchrule_001": {"disable": True}}}})
        rng.shuffle(sect)
        cfg["file_rules"] = sect
    r = rng.random()
    if r < 0.1:
        cfg["linesep"] = "\n"
    if rng.random() < 0.3:
        g = workload.random_group_config(rng, runner.RULES)
        if g:
            cfg.setdefault("rule", {})["group"] = g
    if rng.random() < 0.25:
        ind = workload.random_indent_config(rng)
        if ind:
            cfg["indent"] = ind
    if rng.random() < 0.3:
        # documented option values of a few rules
        cand = [x for x in runner.RULES if x[1] != 0 and any(o in workload.option_domains() for o in x[6])]
        for x in rng.sample(cand, min(len(cand), rng.choice([1, 3, 10]))):
            o = workload.random_options(rng, x, 0.7)
            if o:
                cfg.setdefault("rule", {}).setdefault(x[0], {}).update(o)
    if not cfg:
        return None, None
    return cfg, stop


def gen_batch(seed):
    rng = substream(seed, "workload")
    k = rng.randint(2, 8)
    fix = rng.random() < 0.45
    files, meta = [], []
    dirs = ["src", "src", "src/a", "rtl"]
    taken = set()
    for i in range(k):
        name = "%s/f%d.vhd" % (rng.choice(dirs), i)
        if files and rng.random() < 0.25:
            # the same base name in another directory (anything keyed by basename collides)
            other = rng.choice(files)[0]
            cand = "%s/%s" % (rng.choice([d for d in dirs if d != os.path.dirname(other)] or dirs), os.path.basename(other))
            if cand not in taken:
                name = cand
        taken.add(name)
        r = rng.random()
        if r < 0.07:
            label, data, tags = "bad", rng.choice(workload.BAD_VHDL), ["unparseable"]
        elif r < 0.10:
            label, data, tags = "empty", b"", ["empty"]
        else:
            label, data = workload.pick_bytes(rng, rng.choice(["small"] * 7 + ["mid"] * 3))
            tags, data = workload.perturb_bytes(rng, data)
        files.append((name, data))
        meta.append({"path": name, "from": label, "tags": tags, "size": len(data), "digest": wire.digest(data)})
    names = [n for n, _ in files]
    order = list(names)
    rng.shuffle(order)
    dup = None
    if not fix and rng.random() < 0.12:
        dup = rng.choice(names)
        order.insert(rng.randrange(len(order) + 1), dup)
    opts = []
    jobs = rng.choice([1, 1, 2, 2, 3, 4, None])
    if jobs is not None:
        opts += ["-p", str(jobs)]
    if fix:
        opts.append("--fix")
        if rng.random() < 0.3:
            opts.append("--backup")
        if rng.random() < 0.2:
            opts += ["-fp", str(rng.randint(1, 7))]
    elif rng.random() < 0.5:
        opts.append("-ap")
    of = rng.choice(["vsg", "vsg", "syntastic", "summary"])
    opts += ["-of", of]
    style = rng.choice(workload.STYLES)
    if style:
        opts += ["--style", style]
    want_json = rng.random() < 0.6
    want_junit = rng.random() < 0.5
    if want_json:
        opts += ["--json", "out/j.json"]
    if want_junit:
        opts += ["--junit", "out/j.xml"]
    if rng.random() < 0.12:
        opts += ["--quality_report", "out/q.json"]  # written, not compared (running counter by design)
    if rng.random() < 0.08:
        opts.append("--debug")  # diagnostics printed straight from whoever processes the file
    if fix and rng.random() < 0.1:
        opts.append("--force_fix")
    cfg, stop = gen_config(rng, names)
    if stop is not None and want_junit:
        # configuration error + --junit ends in an unhandled exception on the pinned tree for the
        # solo run as well (testcase None): that is C19's subject, keep it out of C15 batches
        opts = [o for i, o in enumerate(opts) if o != "--junit" and (i == 0 or opts[i - 1] != "--junit")]
        want_junit = False
    sandbox = [workload.sb_entry(n, d, "644") for n, d in files]
    local = rng.random() < 0.12
    if local:
        # user rules from a directory: os.listdir order decides the order of the rule objects
        sandbox += workload.local_rules(rng)
        opts += ["-lr", "lr"]
    if cfg is not None:
        sandbox.append(workload.sb_entry("cfg.json", common.json_bytes(cfg)))
        opts += ["-c", "cfg.json"]
    # literal names or globs
    args = list(order)
    globbed = False
    if dup is None and rng.random() < 0.25:
        d = rng.choice(sorted({os.path.dirname(n) for n in names}))
        pat = d + "/*.vhd"
        covered = [n for n in names if os.path.dirname(n) == d]
        if len(covered) >= 2:
            first = min(args.index(n) for n in covered)
            args = [a for a in args if a not in covered]
            args.insert(min(first, len(args)), pat)
            globbed = True
    cpu = rng.randint(1, 4)
    return {
        "property": PROP,
        "engine": "cli",
        "run_seed": seed,
        "umask": "022",
        "cpu_count": cpu,
        "dirsalt": rng.randrange(1 << 30),
        "sched_seed": seed,
        "sandbox": sandbox,
        "dirs": ["out"],
        "argv": opts + ["-f"] + args,
        "stdin": None,
        "faults": [],
        "decisions": None,
        "meta": {"files": meta, "fix": fix, "jobs": jobs if jobs is not None else "default(%d)" % cpu, "dup": dup, "stop": stop, "style": style, "of": of, "json": want_json, "junit": want_junit, "glob": globbed, "config": cfg is not None, "local_rules": local},
    }


# ---------------------------------------------------------------------------------------------
# reference model: each file alone, -p 1, in a pristine process of another hash-seed class


def split_argv(desc):
    a = list(desc["argv"])
    if "-f" not in a:
        return a, []
    i = a.index("-f")
    return a[:i], a[i + 1 :]


def config_of(desc):
    for f in desc["sandbox"]:
        if f["path"] == "cfg.json":
            return json.loads(workload.sb_bytes(f).decode())
    return None


def set_config(desc, cfg):
    desc["sandbox"] = [f for f in desc["sandbox"] if f["path"] != "cfg.json"]
    if cfg is None:
        return
    desc["sandbox"].append(workload.sb_entry("cfg.json", common.json_bytes(cfg)))
    head, names = split_argv(desc)
    if "-c" not in head:
        head += ["-c", "cfg.json"]
        desc["argv"] = head + (["-f"] + names if names else [])


def entry_name(e):
    return list(e.keys())[0] if isinstance(e, dict) else e


def refine_config(desc, env):
    """Feedback-directed per-file configuration: learn which rules report on which file of the
    batch (solo -ap runs of the same tree), then write per-file sections (file_rules or file_list)
    that alter exactly such rules, so that a section applied to the wrong file, lost, or leaking
    into a neighbour changes some file's result."""
    rng = substream(desc["run_seed"], "refine")
    names = [f["path"] for f in desc["sandbox"] if f["path"].endswith(".vhd")]
    if desc["meta"].get("stop") or rng.random() < 0.35 or len(names) < 2:
        return desc
    cfg = config_of(desc) or {}
    cfg.pop("file_rules", None)
    cfg.pop("file_list", None)
    d0 = copy.deepcopy(desc)
    set_config(d0, cfg if cfg else None)
    head, _ = split_argv(d0)
    keep = []
    skip = 0
    for x in head:
        if skip:
            skip -= 1
            continue
        if x in ("--fix", "--backup", "-ap"):
            continue
        if x in ("-fp", "--json", "--junit", "-p", "-of"):
            skip = 1
            continue
        keep.append(x)
    fired = {}
    for n in names:
        d = copy.deepcopy(d0)
        d["argv"] = ["-p", "1", "-ap", "--json", "out/learn.json"] + keep + ["-f", n]
        d["sandbox"] = [f for f in d["sandbox"] if not f["path"].endswith(".vhd") or f["path"] == n]
        key = ("c15learn", common.desc_key(d, ("sandbox", "argv")))
        if key not in env.cache:
            r = env.run(d, keep_files=("out/learn.json",))
            ids = set()
            try:
                for fe in json.loads(r["kept"]["out/learn.json"].decode())["files"]:
                    for v in fe["violations"]:
                        ids.add(v["rule"])
            except Exception:
                pass
            env.cache[key] = sorted(ids)
        fired[n] = env.cache[key]
    allfired = sorted({u for v in fired.values() for u in v})
    if not allfired:
        return desc
    sect = []
    picks = rng.sample(names, rng.randint(1, min(3, len(names))))
    for n in picks:
        pool = (fired[n] * 2 + allfired) or allfired
        rr = {}
        for _ in range(rng.randint(1, 4)):
            u = rng.choice(pool)
            k = rng.random()
            # (no severity here: a severity inside a per-file block raises AttributeError on the pinned
            # tree, in the solo run as well - C19's subject - and the batch would be excluded)
            rr[u] = {"disable": True} if k < 0.75 else {"fixable": False}
        sect.append({n: {"rule": rr}})
    if rng.random() < 0.7:
        top = cfg.setdefault("rule", {})
        if rng.random() < 0.5:
            top.setdefault(rng.choice(allfired), {"disable": False})
        else:
            top.setdefault("global", {}).setdefault("indent_size", 2)
    if rng.random() < 0.5:
        # severities of rules that really report here: explicit built-in names and user-defined
        # levels of both types (docs/rule_severity.rst)
        top = cfg.setdefault("rule", {})
        for u in rng.sample(allfired, min(len(allfired), rng.randint(1, 3))):
            sev = rng.choice(["Error", "Warning", "Critical", "Future"])
            top.setdefault(u, {})["severity"] = sev
            if sev == "Critical":
                cfg.setdefault("severity", {})["Critical"] = {"type": "error"}
            if sev == "Future":
                cfg.setdefault("severity", {})["Future"] = {"type": "warning"}
    use_list = rng.random() < 0.35 and not desc["meta"].get("glob") and not desc["meta"].get("dup")
    head, args = split_argv(desc)
    if use_list:
        others = [n for n in names if n not in picks]
        entries = sect + [n for n in others if rng.random() < 0.8]
        rng.shuffle(entries)
        cfg["file_list"] = entries
        listed = [entry_name(e) for e in entries]
        # some files now come from the configuration only
        args = [a for a in args if a not in listed or rng.random() < 0.5]
        desc["argv"] = head + (["-f"] + args if args else [])
        desc["meta"]["file_list"] = True
    else:
        rng.shuffle(sect)
        cfg["file_rules"] = sect
    set_config(desc, cfg)
    desc["meta"]["config"] = True
    desc["meta"]["per_file_sections"] = len(sect)
    return desc


def solo_desc(desc, name):
    d = copy.deepcopy(desc)
    head, _ = split_argv(d)
    if "-p" in head:
        head[head.index("-p") + 1] = "1"
    else:
        head = ["-p", "1"] + head
    d["argv"] = head + ["-f", name]
    n = os.path.normpath(name)
    d["sandbox"] = [f for f in d["sandbox"] if not f["path"].endswith(".vhd") or os.path.normpath(f["path"]) == n]
    cfg = config_of(d)
    if cfg and "file_list" in cfg:
        # a file_list entry also puts the file on the scan list: the solo run keeps this file's entry only
        cfg["file_list"] = [e for e in cfg["file_list"] if os.path.normpath(entry_name(e)) == n]
        set_config(d, cfg)
    d["decisions"] = None
    d["faults"] = []
    return d


def read_outputs(res):
    out = {"json": None, "junit": None}
    j = res["kept"].get("out/j.json")
    if j is not None:
        try:
            out["json"] = json.loads(j.decode())
        except Exception as e:
            out["json"] = {"unparseable": repr(e)}
    x = res["kept"].get("out/j.xml")
    if x is not None:
        out["junit"] = x.decode("utf-8", "replace")
    return out


def solo_ref(desc, name, env, alt=True):
    d = solo_desc(desc, name)
    key = ("c15solo", alt, common.desc_key(d, ("sandbox", "argv", "umask")))
    if key in env.cache:
        return env.cache[key]
    r = env.run(d, keep_files=("out/j.json", "out/j.xml"), alt=alt)
    n = os.path.normpath(name)
    ent = {
        "status": r["status"],
        "exit": (r["end"] or {}).get("exit"),
        "exc": (r["end"] or {}).get("exc"),
        "tagged": runner.stream_of(r)[1],
        "outputs": read_outputs(r),
        "after": r["after"].get(n),
        "bak": r["after"].get(n + ".bak"),
        "hashseed": r.get("hashseed"),
        "stopped": "nosuchrule" in runner.stream_of(r)[0]["e"] or False,
    }
    env.cache[key] = ent
    return ent


def merge_tagged(parts):
    out = []
    for tag, text in parts:
        if out and out[-1][0] == tag:
            out[-1][1] += text
        else:
            out.append([tag, text])
    return out


def exit_bool(code):
    if code is None:
        return 0
    if isinstance(code, bool):
        return int(code)
    if isinstance(code, int):
        return int(code != 0)
    return 1


def processed_sequence(res):
    """(index, name) of every apply_rules call of the run, in index order."""
    seen = {}
    for rec in res["records"]:
        if rec[0] == "task-begin":
            seen[rec[2]] = rec[3]
    return [seen[k] for k in sorted(seen, key=lambda x: (not isinstance(x, int), x))]


def expected_sequences(desc, res):
    """Per command-line argument: literal name -> [name]; glob -> the matches in the order the
    (simulated) directory returned them to the argument parser."""
    _, args = split_argv(desc)
    globs = {}
    for rec in res["records"]:
        if rec[0] == "op" and rec[4] == "glob" and rec[5] not in globs:
            globs[rec[5]] = list(rec[6])
    seq = []
    for a in args:
        if any(ch in a for ch in "*?["):
            seq.append(("glob", a, globs.get(a)))
        else:
            seq.append(("lit", a, [a]))
    return seq


# ---------------------------------------------------------------------------------------------
# oracle O15


def evaluate(desc, res, env, alt=True):
    V = []

    def add(cls, target, observed):
        V.append({"class": cls, "target": target, "observed": observed})

    if res["status"] not in ("exit", "exc"):
        return V  # no fault is injected in C15 runs; anything else is a harness matter handled by caller
    seq = processed_sequence(res)
    exp = expected_sequences(desc, res)
    # ---- order: per argument, in argument order
    flat = []
    ok_order = True
    pos = 0
    for kind, a, matches in exp:
        if kind == "lit":
            flat.append(a)
        else:
            if matches is None:
                # a single match is not announced as a glob operation; recover it from the sequence
                matches = [seq[pos]] if pos < len(seq) else []
            flat.extend(matches)
        pos = len(flat)
    cfg = config_of(desc)
    if cfg and "file_list" in cfg:
        for e in cfg["file_list"]:
            n = entry_name(e)
            if n not in flat:
                flat.append(n)
    stop_name = None
    solos = {}
    for n in dict.fromkeys(flat):
        solos[n] = solo_ref(desc, n, env, alt=alt)
    if any(s["status"] != "exit" for s in solos.values()):
        return None  # batch contains a file VSG cannot handle on its own: excluded (DESIGN 4/C15 c)
    # where does VSG itself stop the batch?
    for i, n in enumerate(flat):
        if solos[n]["stopped"]:
            stop_name = n
            stop_at = i
            break
    if res["status"] == "exc":
        add("exception-only-in-batch", None, {"exc": res["end"]["exc"]})
        return V
    if stop_name is None:
        if seq != flat:
            add("order-mismatch", None, {"processed": seq, "expected": flat})
            ok_order = False
    else:
        if seq[: stop_at + 1] != flat[: stop_at + 1]:
            add("order-mismatch", None, {"processed": seq, "expected_prefix": flat[: stop_at + 1]})
            ok_order = False
    reported = flat if stop_name is None else flat[: stop_at + 1]
    # ---- streams
    want = merge_tagged([p for n in reported for p in solos[n]["tagged"]])
    got = merge_tagged(runner.stream_of(res)[1])
    if got != want and ("--debug" in desc["argv"] or "--force_fix" in desc["argv"]):
        # --debug lines ("INFO: ...") are printed by whoever analyses the file at the moment it does
        # so - with several jobs they legitimately land between other files' reports.  What must
        # hold: the same lines overall, and everything that is not a debug line in command-line order.
        gs = {t: "".join(x[1] for x in got if x[0] == t) for t in "oe"}
        ws = {t: "".join(x[1] for x in want if x[0] == t) for t in "oe"}
        gl, wl = gs["o"].split("\n"), ws["o"].split("\n")
        if stop_name is not None:
            # workers that ran ahead of a batch-stopping configuration error have printed their
            # diagnostics already; their files are legitimately unreported (scoping decision b)
            gl = [x for x in gl if not x.startswith("INFO:")]
            wl = [x for x in wl if not x.startswith("INFO:")]
        if sorted(gl) != sorted(wl):
            extra = sorted(set(gl) - set(wl))[:3]
            missing = sorted(set(wl) - set(gl))[:3]
            add("stdout-mismatch", None, {"debug_lines": True, "unexpected": [x[:160] for x in extra], "missing": [x[:160] for x in missing], "len_got": len(gs["o"]), "len_want": len(ws["o"])})
        elif "--force_fix" not in desc["argv"] and [x for x in gl if not x.startswith("INFO:")] != [x for x in wl if not x.startswith("INFO:")]:
            # (--force_fix prints the parse error and a banner straight from the worker too, not only
            # INFO lines: with it only the multiset of lines is compared)
            add("stdout-mismatch", None, {"debug_lines": True, "note": "report lines out of command-line order"})
        if gs["e"] != ws["e"]:
            add("stderr-mismatch", None, _diff(gs["e"], ws["e"]))
    elif got != want:
        o = {"got": got[:6], "want": want[:6]}
        gs = {t: "".join(x[1] for x in got if x[0] == t) for t in "oe"}
        ws = {t: "".join(x[1] for x in want if x[0] == t) for t in "oe"}
        if gs["o"] != ws["o"]:
            add("stdout-mismatch", _first_diff_file(reported, solos, gs["o"], "o"), _diff(gs["o"], ws["o"]))
        if gs["e"] != ws["e"]:
            add("stderr-mismatch", None, _diff(gs["e"], ws["e"]))
        if gs == ws:
            add("stdout-mismatch", None, dict(o, note="cross-stream order differs"))
    # ---- exit status
    wexit = int(any(exit_bool(solos[n]["exit"]) for n in reported))
    if exit_bool(res["end"]["exit"]) != wexit:
        add("exit-mismatch", None, {"got": res["end"]["exit"], "want": wexit})
    # ---- json / junit
    outs = read_outputs(res)
    if "--json" in desc["argv"]:
        wj = []
        for n in reported:
            sj = solos[n]["outputs"]["json"]
            wj += (sj or {}).get("files", []) if isinstance(sj, dict) else []
        gj = outs["json"]
        if not isinstance(gj, dict) or gj.get("files") != wj:
            bad = None
            if isinstance(gj, dict) and isinstance(gj.get("files"), list):
                for i, (a, b) in enumerate(zip(gj["files"], wj)):
                    if a != b:
                        bad = b.get("file_path")
                        break
            add("json-mismatch", bad, {"got_n": len(gj.get("files", [])) if isinstance(gj, dict) else None, "want_n": len(wj)})
    if "--junit" in desc["argv"]:
        wx = []
        for n in reported:
            wx += TC_RE.findall(solos[n]["outputs"]["junit"] or "")
        gx = TC_RE.findall(outs["junit"] or "")
        if gx != wx:
            add("junit-mismatch", None, {"got_n": len(gx), "want_n": len(wx)})
        elif len(reported) == 1 and outs["junit"] != solos[reported[0]]["outputs"]["junit"]:
            pass
    # ---- fixed bytes, mode, backup
    if "--fix" in desc["argv"]:
        byname = {os.path.normpath(f["path"]): f for f in desc["sandbox"]}
        for i, n in enumerate(flat):
            nn = os.path.normpath(n)
            got_f = res["after"].get(nn)
            want_f = solos[n]["after"]
            g = (got_f["h"], got_f["mode"]) if got_f else None
            w = (want_f["h"], want_f["mode"]) if want_f else None
            if stop_name is not None and i > stop_at:
                orig = (workload.sb_digest(byname[nn]), int(byname[nn]["mode"], 8))
                if g not in (w, orig):
                    add("fixed-bytes-mismatch", n, {"got": g, "want_one_of": [w, orig], "after_stop": True})
                continue
            if g != w:
                add("fixed-bytes-mismatch", n, {"got": g, "want": w})
            if "--backup" in desc["argv"]:
                gb = res["after"].get(nn + ".bak")
                wb = solos[n]["bak"]
                if (gb["h"] if gb else None) != (wb["h"] if wb else None):
                    add("fixed-bytes-mismatch", n + ".bak", {"got": gb and gb["h"], "want": wb and wb["h"]})
    else:
        for n in flat:
            nn = os.path.normpath(n)
            b, a = res["before"].get(nn), res["after"].get(nn)
            if b and (not a or (a["h"], a["mode"]) != (b["h"], b["mode"])):
                add("fixed-bytes-mismatch", n, {"note": "file changed without --fix"})
    return V


def _diff(got, want):
    i = 0
    m = min(len(got), len(want))
    while i < m and got[i] == want[i]:
        i += 1
    return {"at": i, "got": got[max(0, i - 80) : i + 160], "want": want[max(0, i - 80) : i + 160], "len_got": len(got), "len_want": len(want)}


def _first_diff_file(reported, solos, got, tag):
    pos = 0
    for n in reported:
        s = "".join(x[1] for x in solos[n]["tagged"] if x[0] == tag)
        if got[pos : pos + len(s)] != s:
            return n
        pos += len(s)
    return None


def nontrivial(desc, res):
    _, args = split_argv(desc)
    if len(processed_sequence(res)) < 2:
        return False
    p = (res["end"] or {}).get("probes") or {}
    tr = (res["end"] or {}).get("trace") or []
    if not tr:
        return True  # sequential path with >= 2 files
    sw, last = 0, None
    for a in tr:
        if a[0] == "step":
            if last is not None and a[1] != last:
                sw += 1
            last = a[1]
    return bool(p.get("worker_ge2_tasks")) or sw >= 1


def judge(desc, env):
    if desc.get("channel") == "stdin":
        return judge_stdin(desc, env)
    res = env.run(desc, keep_files=("out/j.json", "out/j.xml"))
    if res["status"] in ("timeout", "harness-error"):
        return res["status"], res
    V = evaluate(desc, res, env)
    if V is None:
        return None, res
    if V and env.alt is not None:
        # a disagreement that disappears when the solo runs use the batch's own hash-seed class is a
        # dependence on the hash seed rather than on neighbours: say so in the violation
        V2 = evaluate(desc, res, env, alt=False)
        if V2 is not None and not V2:
            for v in V:
                v["observed"] = dict(v.get("observed") or {}, hash_seed_dependence=True, was=v["class"])
                v["class"] = "hash-seed-dependence"
    return V, res


# ---------------------------------------------------------------------------------------------
# input channel: --stdin vs named file


def gen_stdin(seed):
    rng = substream(seed, "workload")
    label, data = workload.pick_bytes(rng, rng.choice(["small"] * 6 + ["mid"] * 3))
    try:
        data.decode("utf-8")
    except UnicodeDecodeError:
        data = workload.TINY[rng.randrange(len(workload.TINY))]
        label = "tiny"
    if b"\r" in data.replace(b"\r\n", b""):
        data = data.replace(b"\r", b"")
    if rng.random() < 0.1:
        data = data.replace(b"\r\n", b"\n").replace(b"\n", b"\r\n")
    if rng.random() < 0.35:
        # characters that some line-splitting functions treat as line breaks and others do not
        # (form feed, vertical tab, FS/GS/RS, NEL, LINE/PARAGRAPH SEPARATOR), inside comments
        lines = data.split(b"\n")
        for _ in range(rng.randint(1, 3)):
            i = rng.randrange(len(lines))
            ch = rng.choice([b"\x0c", b"\x0b", b"\x1c", b"\x1d", b"\x1e", b"\xc2\x85", b"\xe2\x80\xa8", b"\xe2\x80\xa9"])
            lines.insert(i, b"-- page" + ch + b"break " + ch)
        data = b"\n".join(lines)
        label += "+odd-breaks"
    if rng.random() < 0.1 and data.endswith(b"\n"):
        data = data.rstrip(b"\r\n")
    opts = []
    fix = rng.random() < 0.2
    if fix:
        opts.append("--fix")
    elif rng.random() < 0.5:
        opts.append("-ap")
    of = rng.choice(["vsg", "syntastic", "summary"])
    opts += ["-of", of]
    style = rng.choice(workload.STYLES)
    if style:
        opts += ["--style", style]
    if rng.random() < 0.6:
        opts += ["--json", "out/j.json"]
    if rng.random() < 0.5:
        opts += ["--junit", "out/j.xml"]
    names = ["src/x.vhd"]
    cfg, _ = gen_config(rng, names, allow_stop=False)
    sandbox = [workload.sb_entry("src/x.vhd", data)]
    if cfg is not None:
        cfg.pop("file_rules", None)  # per-file sections are keyed by name: left out of channel runs
        if cfg:
            sandbox.append(workload.sb_entry("cfg.json", common.json_bytes(cfg)))
            opts += ["-c", "cfg.json"]
    return {
        "property": PROP,
        "engine": "cli",
        "channel": "stdin",
        "run_seed": seed,
        "umask": "022",
        "cpu_count": rng.randint(1, 4),
        "dirsalt": 0,
        "sched_seed": seed,
        "sandbox": sandbox,
        "dirs": ["out"],
        "argv": opts + ["--stdin"],
        "stdin_b64": workload.sb_entry("x", data)["b64"],
        "faults": [],
        "decisions": None,
        "meta": {"files": [{"path": "stdin", "from": label, "size": len(data), "digest": wire.digest(data)}], "fix": fix, "of": of, "style": style},
    }


def _rename(obj, a, b):
    if isinstance(obj, str):
        return obj.replace(a, b)
    if isinstance(obj, list):
        return [_rename(x, a, b) for x in obj]
    if isinstance(obj, dict):
        return {k: _rename(v, a, b) for k, v in obj.items()}
    return obj


def judge_stdin(desc, env):
    res = env.run(desc, keep_files=("out/j.json", "out/j.xml"))
    if res["status"] in ("timeout", "harness-error"):
        return res["status"], res
    named = copy.deepcopy(desc)
    named.pop("channel", None)
    named.pop("stdin_b64", None)
    named["argv"] = ["-p", "1"] + [a for a in desc["argv"] if a != "--stdin"] + ["-f", "src/x.vhd"]
    ref = env.run(named, keep_files=("out/j.json", "out/j.xml"), alt=True)
    if ref["status"] != "exit":
        return None, res
    V = []

    def add(cls, observed):
        V.append({"class": cls, "target": "stdin", "observed": observed})

    NAME, STD = "src/x.vhd", "stdin"
    if res["status"] == "exc":
        add("channel-mismatch", {"exc": res["end"]["exc"], "named_exit": ref["end"]["exit"]})
        return V, res
    if res["status"] != "exit":
        return V, res
    got = merge_tagged(runner.stream_of(res)[1])
    want = _rename(merge_tagged(runner.stream_of(ref)[1]), NAME, STD)
    if got != want:
        gs = "".join(x[1] for x in got)
        ws = "".join(x[1] for x in want)
        add("channel-mismatch", dict(_diff(gs, ws), what="report"))
    if exit_bool(res["end"]["exit"]) != exit_bool(ref["end"]["exit"]):
        add("channel-mismatch", {"what": "exit", "got": res["end"]["exit"], "want": ref["end"]["exit"]})
    go, wo = read_outputs(res), read_outputs(ref)
    if "--json" in desc["argv"] and go["json"] != _rename(wo["json"], NAME, STD):
        add("channel-mismatch", {"what": "json"})
    if "--junit" in desc["argv"] and TC_RE.findall(go["junit"] or "") != TC_RE.findall(_rename(wo["junit"] or "", NAME, STD)):
        add("channel-mismatch", {"what": "junit"})
    return V, res


# ---------------------------------------------------------------------------------------------
# jobs


def plan(tier, seed):
    if tier == "quick":
        nb, ns, nl = 380, 50, 12
    else:
        nb, ns, nl = 12000, 1500, 120
    jobs = []
    for i in range(nb):
        jobs.append({"prop": PROP, "mode": "batch", "i": i, "seed": H(seed, tier, PROP, "batch", i)})
    for i in range(ns):
        jobs.append({"prop": PROP, "mode": "stdin", "i": i, "seed": H(seed, tier, PROP, "stdin", i)})
    for i in range(nl):
        jobs.append({"prop": PROP, "mode": "longlived", "i": i, "seed": H(seed, tier, PROP, "longlived", i)})
    # the driver does not import vsg: the shards compute the case list, job i takes every 16th case
    jobs += [{"prop": PROP, "mode": "optleak", "i": i, "of": 16, "tier": tier, "seed": seed} for i in range(16)]
    jobs += common.regress_jobs(PROP, 8 if tier == "quick" else 100)
    return jobs


def gen_longlived(seed):
    """One worker (or the sequential path) handling many files in a row: what a long-lived process saw before."""
    rng = substream(seed, "workload")
    d = gen_batch(seed)
    n = rng.randint(18, 30)
    sandbox = [f for f in d["sandbox"] if not f["path"].endswith(".vhd")]
    names, meta = [], []
    for i in range(n):
        name = "src/g%02d.vhd" % i
        r = rng.random()
        if r < 0.08:
            label, data = "bad", rng.choice(workload.BAD_VHDL)
        else:
            label, data = workload.pick_bytes(rng, "small")
        sandbox.append(workload.sb_entry(name, data))
        names.append(name)
        meta.append({"path": name, "from": label, "size": len(data), "digest": wire.digest(data), "tags": []})
    head, _ = split_argv(d)
    cfg = config_of(d)
    keep_cfg = False
    if cfg is not None and rng.random() < 0.6:
        # keep the configuration (rule options, groups, indent map, severities) without its per-file
        # sections, which name files of the short batch: state that only leaks under some option
        cfg.pop("file_rules", None)
        cfg.pop("file_list", None)
        if cfg:
            sandbox = [f for f in sandbox if f["path"] != "cfg.json"] + [workload.sb_entry("cfg.json", common.json_bytes(cfg))]
            keep_cfg = True
    if not keep_cfg:
        sandbox = [f for f in sandbox if f["path"] != "cfg.json"]
        head = [a for i, a in enumerate(head) if a != "-c" and (i == 0 or head[i - 1] != "-c")]
    if "-p" in head:
        i = head.index("-p")
        head[i + 1] = rng.choice(["1", "1", "2"])
    else:
        head = ["-p", "1"] + head
    d["sandbox"] = sandbox
    d["argv"] = head + ["-f"] + names
    d["meta"]["files"] = meta
    d["meta"]["stop"] = None
    d["meta"]["dup"] = None
    d["meta"]["config"] = keep_cfg
    d["meta"]["longlived"] = True
    d["policy"] = "starve"
    return d


# ---------------------------------------------------------------------------------------------
# option leak: a per-file option value of file A must not reach file B handled by the same process


def _learn_reporters(env, data):
    key = ("c15rep", wire.digest(data))
    if key not in env.cache:
        d = {
            "property": PROP, "engine": "cli", "run_seed": 0, "umask": "022", "cpu_count": 1, "dirsalt": 0, "sched_seed": 0,
            "sandbox": [workload.sb_entry("src/a.vhd", data)], "dirs": ["out"],
            "argv": ["-p", "1", "-ap", "--json", "out/learn.json", "-f", "src/a.vhd"], "stdin": None, "faults": [], "decisions": None, "meta": {},
        }
        r = env.run(d, keep_files=("out/learn.json",))
        ids = set()
        try:
            for fe in json.loads(r["kept"]["out/learn.json"].decode())["files"]:
                for v in fe["violations"]:
                    ids.add(v["rule"])
        except Exception:
            pass
        env.cache[key] = sorted(ids)
    return env.cache[key]


def optleak_cases(env, tier, seed):
    """(design path, rule, option, value, other value): every documented value of every documented
    option of (1) every rule that reports on a hand-written /verif/corpus design, on that design,
    and (2) a seeded sample (quick) / all (thorough) of the rules, on the rule's own test input."""
    import random

    dom = workload.option_domains()
    rules = {r[0]: r for r in runner.RULES if r[1] != 0}
    out = []
    own = sorted(p for p, s in workload.corpus() if p.startswith(os.path.join(workload.HERE, "corpus")))
    for p in own:
        for u in _learn_reporters(env, workload.read(p)):
            r = rules.get(u)
            if not r:
                continue
            for o in r[6]:
                if o in dom and o not in ("indent_size", "length"):
                    for v in dom[o]:
                        out.append((p, u, o, v))
    rest = []
    for u, r in sorted(rules.items()):
        name, num = u.rsplit("_", 1)
        p = os.path.join(workload.REPO, "tests", name, "rule_%s_test_input.vhd" % num)
        if not os.path.exists(p) or os.path.getsize(p) > 20000:
            continue
        for o in r[6]:
            if o in dom and o not in ("indent_size", "length"):
                for v in dom[o]:
                    rest.append((p, u, o, v))
    if tier == "quick":
        random.Random(H(seed, "optleak")).shuffle(rest)
        rest = rest[:96]
    return out + rest


def gen_optleak(seed, case):
    p, u, o, v = case
    rng = substream(seed, "workload")
    data = workload.read(p)
    dom = workload.option_domains()
    others = [x for x in dom[o] if x != v]
    cfg = {"rule": {u: {"disable": False}}, "file_rules": [{"src/a.vhd": {"rule": {u: {o: v}}}}]}
    if others and rng.random() < 0.35:
        cfg["rule"][u][o] = rng.choice(others)  # an explicit project-wide value, overridden for A only
    names = ["src/a.vhd", "src/b.vhd"]
    if rng.random() < 0.3:
        names.append("src/c.vhd")
    sandbox = [workload.sb_entry(n, data) for n in names] + [workload.sb_entry("cfg.json", common.json_bytes(cfg))]
    order = list(names)
    if rng.random() < 0.3:
        rng.shuffle(order)
    opts = ["-p", rng.choice(["1", "1", "1", "2"])]
    fix = rng.random() < 0.3
    opts += ["--fix"] if fix else ["-ap"]
    opts += ["-of", rng.choice(["vsg", "syntastic"]), "--json", "out/j.json", "-c", "cfg.json"]
    return {
        "property": PROP, "engine": "cli", "run_seed": seed, "umask": "022", "cpu_count": 2, "dirsalt": 0, "sched_seed": seed, "policy": "sticky",
        "sandbox": sandbox, "dirs": ["out"], "argv": opts + ["-f"] + order, "stdin": None, "faults": [], "decisions": None,
        "meta": {"files": [{"path": n, "from": os.path.relpath(p, workload.REPO) if p.startswith(workload.REPO) else "corpus/" + os.path.basename(p), "tags": [], "size": len(data), "digest": wire.digest(data)} for n in names],
                 "fix": fix, "jobs": opts[1], "dup": None, "stop": None, "style": None, "of": None, "json": True, "junit": False, "glob": False, "config": True, "optleak": [u, o, str(v)]},
    }


def run_optleak(job, env):
    out = common.JobResult(job)
    cases = optleak_cases(env, job.get("tier", "quick"), job["seed"])
    for k, case in list(enumerate(cases))[job["i"] :: job["of"]]:
        d = gen_optleak(H(job["seed"], "optleak", k), case)
        d["hashseed_class"] = job.get("class", 0)
        V, res = judge(d, env)
        if V is None:
            out.skipped("solo-run-not-usable")
            out.account(d, res, [], None, nontrivial=False)
            continue
        if not isinstance(V, list):
            out.account(d, res, V, None, nontrivial=False)
            continue
        out.account(d, res, V, _shape(d, res) + (tuple(d["meta"]["optleak"]),), nontrivial=isinstance(res, dict) and nontrivial(d, res))
        out.stat("optleak_cases", 1)
        out.probe("per_file_option_value_next_to_a_file_without_it")
        if V:
            out.violation(d, V)
    return out.done()


def _shape(desc, res):
    m = desc["meta"]
    return (tuple(sorted(f["digest"] for f in m["files"])), tuple(a for a in desc["argv"] if not a.endswith(".vhd")), common.trace_hash(res))


def run_job(job, env):
    if job["mode"] == "optleak":
        return run_optleak(job, env)
    out = common.JobResult(job)
    seed = job["seed"]
    mode = job["mode"]
    if mode == "regress":
        d = common.regress_desc(job)
    elif mode == "stdin":
        d = gen_stdin(seed)
    elif mode == "longlived":
        d = gen_longlived(seed)
    else:
        d = refine_config(gen_batch(seed), env)
    d["hashseed_class"] = job.get("class", 0)
    V, res = judge(d, env)
    if V is None:
        out.skipped("solo-run-not-usable")
        out.account(d, res, [], None, nontrivial=False)
        return out.done()
    if mode == "stdin":
        nt = isinstance(res, dict) and res["status"] == "exit"
    else:
        nt = isinstance(res, dict) and nontrivial(d, res)
    out.account(d, res, V, _shape(d, res) if isinstance(res, dict) else None, nontrivial=nt)
    if isinstance(V, list):
        if mode != "stdin" and isinstance(res, dict):
            seq = processed_sequence(res)
            if len(seq) >= 3 and not (res["end"] or {}).get("trace"):
                out.probe("sequential_path_ge3_files")
            if d["meta"].get("stop"):
                out.probe("batch_stopped_by_configuration_error")
            if any("unparseable" in (f.get("tags") or []) for f in d["meta"]["files"]):
                out.probe("batch_contains_rejected_file")
            if d["meta"].get("glob"):
                out.probe("glob_argument")
            if d["meta"].get("local_rules"):
                out.probe("local_rules_directory")
            if d["meta"].get("config"):
                out.probe("configuration_stack")
            out.probe("reference_in_other_hashseed_class")
        if V:
            out.violation(d, V)
    if job["i"] < 2:
        out.sample({"mode": mode, "argv": d["argv"], "files": d["meta"]["files"][:8], "schedule": ((res.get("end") or {}).get("trace") or [])[:40] if isinstance(res, dict) else None, "status": res["status"] if isinstance(res, dict) else None})
    return out.done()


def replay_job(job, env):
    desc = job["desc"]
    V, res = judge(desc, env)
    if V is None:
        return {"status": "solo-run-not-usable", "violations": []}
    if not isinstance(V, list):
        return {"status": V, "violations": [], "fatal": "replay ended with %s" % V}
    return {"status": res["status"], "violations": V, "trace": (res.get("end") or {}).get("trace")}
