"""Shared pieces of the property modules: job results, descriptor keys, the execution environment."""
import hashlib
import json

from vsim import runner


def json_bytes(obj):
    return (json.dumps(obj, indent=1, sort_keys=True) + "\n").encode()


def stable(obj):
    return hashlib.sha1(json.dumps(obj, sort_keys=True, default=str).encode()).hexdigest()[:16]


def desc_key(desc, fields):
    return stable([desc.get(f) for f in fields])


def trace_hash(res):
    if not isinstance(res, dict) or not res.get("end"):
        return None
    return stable(res["end"].get("trace"))


def fault_kinds_fired(res):
    """Counts per fault kind of faults that actually fired in this run (from the history)."""
    out = {}
    if not isinstance(res, dict):
        return out
    for rec in res["records"]:
        if rec[0] == "op" and rec[7]:
            f = rec[7]
            k = f[0]
            if k == "err" and len(f) > 2:
                k = "disk-full(sticky)"
            elif k == "partial":
                k = "partial+crash" if f[2] == "crash" else "partial+err"
            out[k] = out.get(k, 0) + 1
        elif rec[0] == "global-fault":
            out[rec[2]] = out.get(rec[2], 0) + 1
        elif rec[0] == "out" and rec[2] == "sim" and rec[3].startswith("raise-at-update"):
            out["raise"] = out.get("raise", 0) + 1
        elif rec[0] == "out" and rec[2] == "sim" and rec[3].startswith("interrupt-line"):
            out["interrupt-line"] = out.get("interrupt-line", 0) + 1
        elif rec[0] == "terminate":
            out["terminate"] = out.get("terminate", 0) + 1
            if rec[2]:
                out["terminate-with-worker-inside-io"] = out.get("terminate-with-worker-inside-io", 0) + 1
    return out


def count_records(res, kind):
    return sum(1 for r in res["records"] if r[0] == kind)


class JobResult:
    def __init__(self, job):
        self.d = {
            "job": job,
            "evals": 0,
            "keys": [],
            "faults": {},
            "probes": {},
            "stats": {},
            "violations": [],
            "samples": [],
            "skipped": {},
            "timeouts": 0,
            "harness_errors": [],
            "steps": 0,
            "boundaries": 0,
            "status": {},
            "log_digest": "",
            "traces": [],
            "states": [],
        }

    def stat(self, k, n=1):
        self.d["stats"][k] = self.d["stats"].get(k, 0) + n

    def probe(self, k, n=1):
        self.d["probes"][k] = self.d["probes"].get(k, 0) + n

    def skipped(self, why):
        self.d["skipped"][why] = self.d["skipped"].get(why, 0) + 1

    def sample(self, s):
        if len(self.d["samples"]) < 2:
            self.d["samples"].append(s)

    def account(self, desc, res, V, key, nontrivial=True, fault_kind=None):
        """One simulated run was executed and judged."""
        self.d["evals"] += 1
        if V == "timeout":
            self.d["timeouts"] += 1
            return
        if V == "harness-error":
            self.d["harness_errors"].append((res or {}).get("harness") or "?")
            return
        if not isinstance(res, dict):
            return
        # event-log digest of the run: everything the simulated process streamed, in order
        h = hashlib.sha1((self.d["log_digest"] + repr((res["status"], res["records"], sorted((k, v["h"], v["mode"]) for k, v in res["after"].items())))).encode("utf-8", "replace"))
        self.d["log_digest"] = h.hexdigest()[:20]
        st = res["status"].split(":")[0]
        self.d["status"][st] = self.d["status"].get(st, 0) + 1
        tr = (res.get("end") or {}).get("trace")
        if tr:
            self.d["traces"].append(stable(tr))
        # distinct sandbox states seen at operation boundaries (path -> digest/mode), per run
        try:
            seen = set()
            for _label, state in runner.boundaries(res):
                seen.add(stable(sorted(state.items())))
            self.d["states"].extend(sorted(seen)[:400])
        except Exception:
            pass
        if nontrivial:
            self.d["keys"].append(stable(key))
        for k, n in fault_kinds_fired(res).items():
            self.d["faults"][k] = self.d["faults"].get(k, 0) + n
        for k, n in ((res.get("end") or {}).get("probes") or {}).items():
            self.probe(k, n)
        for rec in res["records"]:
            if rec[0] == "out" and rec[2] == "sim" and rec[3].startswith("state-drift"):
                for key in rec[3].split()[2:]:
                    self.probe("process_state_drift:" + key)
            elif rec[0] == "out" and rec[2] == "sim" and rec[3].startswith("lossless-"):
                self.probe("read_monitor:" + rec[3].split()[0])
                if rec[3].startswith("lossless-fail") and len(self.d["samples"]) < 4:
                    self.d["samples"].append({"read_monitor": rec[3][:600], "argv": desc.get("argv")})
        self.d["steps"] += count_records(res, "sched") + count_records(res, "op")
        self.d["boundaries"] += count_records(res, "done")

    def violation(self, desc, V):
        self.d["violations"].append({"desc": desc, "violations": V})

    def done(self):
        return self.d


class Env:
    """What a job gets: a way to execute descriptors (local warm fork, optionally a helper
    interpreter with another hash seed) and a cache for reference results."""

    def __init__(self, executor, alt=None):
        self.ex = executor
        self.alt = alt
        self.cache = {}
        self.nruns = 0

    def run(self, desc, keep_files=(), alt=False):
        self.nruns += 1
        if alt and self.alt is not None:
            return self.alt.run(desc, keep_files=keep_files)
        return self.ex.run(desc, keep_files=keep_files)

    def trim_cache(self, limit=4000):
        if len(self.cache) > limit:
            self.cache.clear()


def regress_jobs(prop, variants):
    """Jobs replaying the committed regression descriptors (findings that were fixed): variant 0 is
    the recorded schedule, the others re-search the schedule with fresh PRNG values."""
    import glob
    import os

    here = os.path.dirname(os.path.dirname(os.path.dirname(os.path.abspath(__file__))))
    jobs = []
    for f in sorted(glob.glob(os.path.join(here, "regressions", prop + "-*.json"))):
        for v in range(variants):
            jobs.append({"prop": prop, "mode": "regress", "file": f, "variant": v, "i": v, "seed": v})
    return jobs


def regress_desc(job):
    import copy

    with open(job["file"]) as fh:
        d = json.load(fh)
    for k in ("class", "observed", "shrink", "unshrunk", "note"):
        d.pop(k, None)
    d = copy.deepcopy(d)
    if job["variant"] > 0:
        d["decisions"] = None
        d["sched_seed"] = job["variant"]
        d["policy"] = "uniform"
    d["run_seed"] = "regress-%s-%d" % (job["file"].rsplit("/", 1)[-1][:-5], job["variant"])
    return d
