"""C16 - write-back is all-or-nothing and keeps the file's mode.  See DESIGN.md section 4."""
import copy
import errno
import os

from vsim import runner, wire, workload
from vsim.decider import H, substream
from vsim.props import common

PROP = "C16"
LEVEL = "fault_enumeration"

NEEDS_ALT = False
SWEEP_PARTS = 4
BUDGET = {"quick": 420, "thorough": 3 * 3600}
RULE = (
    "cases are simulated vsg --fix runs: (a) sweep = for each generated workload, every intercepted I/O operation of the "
    "fault-free run x every fault kind legal for it (exhaustive per workload) plus a rule failure at up to 12 update calls; "
    "(b) random = 0-3 faults at random operations, -p 1; (c) pool = SimPool runs with random schedule, faults, whole-system kill, "
    "owner kill, Ctrl-C, duplicate targets and early-stop terminate. All cases reach a mutating operation or a fault by construction "
    "(every workload is --fix); distinct = distinct (workload shape [sizes/modes/tags/options/umask], fault address and kind) for sweeps "
    "and (workload shape, schedule-trace hash, fired fault set) otherwise."
)
ASSUMPTIONS = [
    "crash = process death (kill -9): what the kernel already has survives; power loss / unsynced page cache is out of scope",
    "regular files only (no symlinks or hard links to targets); operations are serial at Python-call granularity",
    "faults are the errno values of DESIGN.md table 3.5; a partial write leaves a prefix of the data; a short write (raw handles only) accepts a prefix and reports the count without an error",
    "a file is 'rejected' if the reference run of the same tree rejects it or if the harness planted the reason (unparseable text, a per-file section naming a rule that does not exist)",
    "fixed(t) is taken from the fault-free sequential run of the same tree (differential oracle)",
]
REAL_COMPONENTS = ["vsg.__main__.main and everything below it (argument parsing, configuration, tokenizer, classifier, rules, fix, write_vhdl_file, shutil.copystat)", "pickle transport of pool tasks/results", "kernel tmpfs file system", "forked worker processes"]
STUBBED_COMPONENTS = ["multiprocessing.Pool scheduling (SimPool + Decider)", "data phase of shutil.copy2 (decomposed)", "clock/hostname", "directory order", "stdin/stdout capture", "process death (os._exit / SIGKILL chosen by the simulator)"]

MUTATING = {"open-w", "write", "write-raw", "flush", "close", "chmod", "replace", "remove", "truncate", "utime", "copy-open", "copy-data", "copy-stat", "link"}

E = errno
FAULTS_BY_KIND = {
    "open-r": [["err", E.ENOENT], ["err", E.EACCES], ["err", E.EMFILE], ["crash"], ["interrupt"]],
    "read": [["err", E.EIO], ["crash"]],
    "stat": [["err", E.ENOENT], ["err", E.EACCES], ["crash"]],
    "open-w": [["err", E.EACCES], ["err", E.ENOSPC], ["err", E.EMFILE], ["err", E.EROFS], ["disk-full", E.ENOSPC], ["crash"], ["interrupt"]],
    "write": [["err", E.ENOSPC], ["err", E.EIO], ["disk-full", E.ENOSPC], ["crash"], ["interrupt"], "partials"],
    "write-raw": [["err", E.ENOSPC], ["err", E.EIO], ["disk-full", E.ENOSPC], ["crash"], ["interrupt"], "partials", "shorts"],
    "close": [["err", E.ENOSPC], ["err", E.EIO], ["crash"], ["interrupt"]],
    "chmod": [["err", E.EPERM], ["err", E.EROFS], ["crash"], ["interrupt"]],
    "replace": [["err", E.EACCES], ["err", E.EBUSY], ["err", E.ENOSPC], ["err", E.EXDEV], ["crash"], ["interrupt"]],
    "remove": [["err", E.EACCES], ["crash"], ["interrupt"]],
    "copy-open": [["err", E.EACCES], ["err", E.ENOSPC], ["crash"], ["interrupt"]],
    "copy-data": [["err", E.ENOSPC], ["err", E.EIO], ["disk-full", E.ENOSPC], ["crash"], ["interrupt"], "partials"],
    "copy-stat": [["err", E.EPERM], ["crash"], ["interrupt"]],
    "fsync": [["err", E.EIO], ["crash"]],
    "flush": [["err", E.ENOSPC], ["err", E.EIO], ["crash"], ["interrupt"]],
    "truncate": [["err", E.EIO], ["crash"]],
    "utime": [["err", E.EPERM], ["crash"]],
    "link": [["err", E.EPERM], ["crash"]],
    "glob": [],
    "mkdir": [],
    "rmdir": [],
}


def faults_for(kind, length):
    out = []
    for f in FAULTS_BY_KIND.get(kind, [["crash"]]):
        if f == "partials":
            L = int(length or 0)
            for n in sorted({0, 1, 100, L - 1, L // 2}):
                if 0 <= n < L:
                    out.append(["partial", n, E.ENOSPC])
                    out.append(["partial", n, "crash"])
        elif f == "shorts":
            # write(2) on an unbuffered handle accepts only part of the data and reports the count
            L = int(length or 0)
            for n in sorted({1, 100, L - 1, L // 2, 4096}):
                if 0 < n < L:
                    out.append(["short", n])
        else:
            out.append(list(f))
    return out


# ---------------------------------------------------------------------------------------------
# workload


SIZE_PROFILES = {
    # sweeps repeat the whole in-memory fix for every single fault, so the every-change tier keeps
    # to files that cost a fraction of a second; "big" still crosses the 8 KiB text buffer
    "light": ["small"] * 14 + ["mid"] * 5 + ["big"],
    "full": ["small"] * 6 + ["mid"] * 3 + ["big"] * 2 + ["huge"],
}


def gen_base(seed, pool=False, sizes="full"):
    """A fault-free --fix descriptor."""
    rng = substream(seed, "workload")
    ntargets = rng.choice([1, 1, 2, 3] if not pool else [2, 3, 4, 4])
    if sizes == "light" and not pool:
        ntargets = rng.choice([1, 1, 1, 2])
    dupfocus = pool and rng.random() < 0.15  # two tasks on one file, nothing else in the way
    if dupfocus:
        ntargets = rng.choice([1, 1, 2])
    sandbox, targets, meta = [], [], []
    for i in range(ntargets):
        name = "src/f%d.vhd" % i
        r = rng.random()
        if r < 0.08 and not dupfocus:
            label, data, tags = "bad", rng.choice(workload.BAD_VHDL), ["unparseable"]
        else:
            label, data = workload.pick_bytes(rng, rng.choice(SIZE_PROFILES[sizes]))
            tags, data = workload.perturb_bytes(rng, data)
        mode = rng.choice(workload.MODES)
        sandbox.append(workload.sb_entry(name, data, mode))
        targets.append(name)
        meta.append({"path": name, "from": label, "tags": tags, "size": len(data), "mode": mode})
    argv = []
    jobs = rng.choice([2, 2, 3, 4]) if pool else 1
    if dupfocus:
        jobs = 2
    argv += ["-p", str(jobs)]
    argv += ["--fix"]
    backup = rng.random() < 0.4
    if backup:
        argv.append("--backup")
    style = rng.choice(workload.STYLES)
    if style:
        argv += ["--style", style]
    if rng.random() < 0.15:
        argv += ["-fp", str(rng.randint(1, 7))]
    cfg = {}
    r = rng.random()
    if r < 0.2:
        cfg["linesep"] = "\n"
    elif r < 0.35:
        cfg["linesep"] = "\r\n"
    cfgerr = None
    if len(targets) >= 2 and not dupfocus and rng.random() < (0.25 if pool else 0.06):
        cfgerr = rng.choice(targets)
        bad = {cfgerr: {"rule": {"nosuchrule_001": {"disable": True}}}}
        good = {cfgerr: {"rule": {"length_001": {"disable": True}}}}
        # the invalid per-file section sits in file_rules or in (deprecated, still documented)
        # file_list; the same file may have a valid section in the other list as well
        r = rng.random()
        if r < 0.5:
            cfg["file_rules"] = [bad]
        elif r < 0.65:
            cfg["file_list"] = [bad]
        elif r < 0.85:
            cfg["file_list"] = [bad]
            cfg["file_rules"] = [good]
        else:
            cfg["file_rules"] = [bad]
            cfg["file_list"] = [good]
    if cfg:
        sandbox.append(workload.sb_entry("cfg.json", common.json_bytes(cfg)))
        argv += ["-c", "cfg.json"]
    dup = None
    names = list(targets)
    if dupfocus:
        dup = targets[0]
        names.insert(1, dup if rng.random() < 0.6 else "./" + dup)
    elif "file_list" not in cfg and rng.random() < (0.12 if pool else 0.05):
        dup = rng.choice(targets)
        names.insert(rng.randrange(len(names) + 1), dup if rng.random() < 0.5 else "./" + dup)
    if rng.random() < 0.05:
        t = rng.choice(targets)
        sandbox.append(workload.sb_entry(t + ".tmp", b"-- somebody else's temporary file\n"))
    if backup and rng.random() < 0.2:
        # a stale backup from an earlier run: --backup must still leave a copy of *this* original
        t = rng.choice(targets)
        if rng.random() < 0.5:
            sandbox.append(workload.sb_entry(t + ".bak", b"-- stale backup of an older version\n", rng.choice(["644", "444"])))
        else:
            # ... of the same size and with the same timestamp as the current revision (coarse or
            # clamped mtimes): only the content tells them apart
            cur = [f for f in sandbox if f["path"] == t][0]
            data = bytearray(workload.sb_bytes(cur))
            if data:
                i = rng.randrange(len(data))
                data[i] = 0x20 if data[i] != 0x20 else 0x09
                e = workload.sb_entry(t + ".bak", bytes(data), cur["mode"])
                e["mtime_ns"] = cur["mtime_ns"] = 1_600_000_000_000_000_000
                sandbox.append(e)
    if not dupfocus:
        rng.shuffle(names)
    argv += ["-f"] + names
    return {
        "property": PROP,
        "engine": "cli",
        "run_seed": seed,
        "umask": rng.choice(workload.UMASKS),
        "cpu_count": rng.randint(1, 4),
        "dirsalt": rng.randrange(1 << 30),
        "sched_seed": seed,
        "sandbox": sandbox,
        "argv": argv,
        "stdin": None,
        "faults": [],
        "decisions": None,
        "targets": targets,
        "meta": {"files": meta, "backup": backup, "jobs": jobs, "dup": dup, "dupfocus": dupfocus, "cfgerr": cfgerr, "style": style},
    }


# ---------------------------------------------------------------------------------------------
# reference model: the fault-free, sequential run of the same descriptor on the same tree


def _argv_targets(desc):
    a = desc["argv"]
    i = a.index("-f")
    return a[:i], a[i + 1 :]


def _norm(p):
    return os.path.normpath(p)


def ref_desc(desc, sandbox=None):
    d = copy.deepcopy(desc)
    head, names = _argv_targets(d)
    seen, uniq = set(), []
    for n in names:
        if _norm(n) not in seen:
            seen.add(_norm(n))
            uniq.append(n)
    if "-p" in head:
        head[head.index("-p") + 1] = "1"
    d["argv"] = head + ["-f"] + uniq
    d["faults"] = []
    d["decisions"] = None
    d["raise_at_update"] = None
    d["interrupt_line"] = None
    if sandbox is not None:
        d["sandbox"] = sandbox
    return d


def _only_my_file_list_entry(d, name):
    """A file_list entry also puts its file on the scan list: the solo reference of one target keeps
    that target's entry only (otherwise the other files, and their errors, join the 'solo' run)."""
    import json

    a = d["argv"]
    if "-c" not in a:
        return
    cname = a[a.index("-c") + 1]
    for i, f in enumerate(d["sandbox"]):
        if f["path"] == cname:
            try:
                cfg = json.loads(workload.sb_bytes(f).decode())
            except Exception:
                return
            if "file_list" in cfg:
                cfg["file_list"] = [e for e in cfg["file_list"] if (list(e.keys())[0] if isinstance(e, dict) else e) == name]
                if not cfg["file_list"]:
                    del cfg["file_list"]
                d["sandbox"] = d["sandbox"][:i] + [workload.sb_entry(cname, common.json_bytes(cfg), f.get("mode", "644"))] + d["sandbox"][i + 1 :]
            return


def compute_refs(desc, env):
    """Returns None when the fault-free run of this workload is itself not usable (VSG dies on the
    input): such workloads are skipped and counted."""
    key = ("c16ref", common.desc_key(desc, ("sandbox", "argv", "umask")))
    if key in env.cache:
        return env.cache[key]
    head, names = _argv_targets(desc)
    has_dup = len({_norm(n) for n in names}) != len(names)
    targets = sorted({_norm(n) for n in names})
    rd = ref_desc(desc)
    # the stop-after-configuration-error logic makes later files unprocessed in the reference too,
    # so references are taken file by file (that is also what the property's "fully fixed" means)
    refs = {"targets": {}, "ops": None, "nupdates": 0}
    byname = {f["path"]: f for f in desc["sandbox"]}
    for t in targets:
        # one reference per *spelling* of the target on the command line ("a.vhd", "./a.vhd"):
        # per-file configuration sections are matched by the name as given, so two spellings of one
        # file can legitimately be treated differently (one rejected, one fixed)
        spellings = list(dict.fromkeys(n for n in names if _norm(n) == t))
        ent = {"orig": workload.sb_digest(byname[t]), "mode": int(byname[t]["mode"], 8), "fixed": None, "rejected": True, "ops": []}
        ent["allowed"] = {ent["orig"]}
        for sp in spellings:
            d1 = copy.deepcopy(rd)
            h1, _ = _argv_targets(d1)
            d1["argv"] = h1 + ["-f", sp]
            _only_my_file_list_entry(d1, sp)
            r1 = env.run(d1, keep_files=(t,))
            if r1["status"] not in ("exit",) or not any(rec[0] == "task-begin" for rec in r1["records"]):
                env.cache[key] = None
                return None
            err = runner.stream_of(r1)[0]["e"]
            rejected = "Error while processing" in err
            fixed = r1["after"][t]["h"] if t in r1["after"] else None
            ent["rejected"] = ent["rejected"] and rejected
            if ent["fixed"] is None or fixed != ent["orig"]:
                ent["fixed"] = fixed
            ent["allowed"].add(fixed)
            if not ent["ops"]:
                ent["ops"] = [(o["task"], o["n"], o["kind"], o["extra"]) for o in runner.ops_of(r1) if o["task"] != "main"]
            if has_dup and fixed != ent["orig"] and r1["kept"].get(t) is not None:
                sb2 = [f for f in desc["sandbox"] if f["path"] != t] + [workload.sb_entry(t, r1["kept"][t], byname[t]["mode"])]
                for sp2 in spellings:
                    d2 = copy.deepcopy(d1)
                    d2["sandbox"] = sb2
                    d2["argv"] = h1 + ["-f", sp2]
                    r2 = env.run(d2)
                    if r2["status"] != "exit":
                        env.cache[key] = None
                        return None
                    ent["allowed"].add(r2["after"][t]["h"])
        refs["targets"][t] = ent
    env.cache[key] = refs
    return refs


# ---------------------------------------------------------------------------------------------
# oracle O16


def _has_bad_section(desc, t):
    import json

    a = desc["argv"]
    if "-c" not in a:
        return False
    for f in desc["sandbox"]:
        if f["path"] == a[a.index("-c") + 1]:
            try:
                cfg = json.loads(workload.sb_bytes(f).decode())
            except Exception:
                return False
            for sect in ("file_rules", "file_list"):
                for e in cfg.get(sect) or []:
                    if isinstance(e, dict) and t in e and any(str(u).startswith("nosuchrule") for u in (e[t] or {}).get("rule", {})):
                        return True
    return False


def evaluate(desc, refs, res):
    """Returns a list of violation dicts (class, target, where, observed)."""
    V = []
    seen = set()
    tg = dict(refs["targets"])
    backup = "--backup" in desc["argv"] or "-b" in desc["argv"]
    head, names = _argv_targets(desc)
    has_dup = len({_norm(n) for n in names}) != len(names)
    initial = set(res["before"])

    def add(cls, t, where, observed):
        if (cls, t) in seen:
            return
        seen.add((cls, t))
        V.append({"class": cls, "target": t, "where": list(where) if isinstance(where, tuple) else where, "observed": observed})

    # rejected by construction, whatever the reference run of this tree did with the file: an
    # unparseable input, or a file whose per-file configuration section names a rule that does not
    # exist (every spelling on the command line equal to the section's key)
    meta = desc.get("meta") or {}
    for t, ent in tg.items():
        byc = any(f.get("path") == t and "unparseable" in (f.get("tags") or []) for f in meta.get("files") or [])
        if meta.get("cfgerr") == t and all(n == t for n in names if _norm(n) == t) and _has_bad_section(desc, t):
            byc = True
        if byc and not ent["rejected"]:
            ent = tg[t] = dict(ent, rejected=True, rejected_by_construction_only=True)

    def check_state(label, state):
        for t, ent in tg.items():
            st = state.get(t)
            if st is None:
                add("target-missing", t, label, None)
                continue
            h, mode = st
            if h not in ent["allowed"]:
                add("content-not-orig-or-fixed", t, label, {"content": h, "allowed": sorted(x for x in ent["allowed"] if x)})
            if mode != ent["mode"]:
                add("mode-changed", t, label, {"mode": "%o" % mode, "want": "%o" % ent["mode"]})
            if ent["rejected"] and h != ent["orig"]:
                add("rejected-file-touched", t, label, {"content": h})
            if backup and not has_dup and not ent["rejected"] and h == ent["fixed"] and h != ent["orig"]:
                b = state.get(t + ".bak")
                if b is None or b[0] != ent["orig"]:
                    add("backup-incomplete", t, label, {"bak": b[0] if b else None, "want": ent["orig"]})

    for label, state in runner.boundaries(res):
        check_state(label, state)
    final = {k: (v["h"], v["mode"]) for k, v in res["after"].items()}
    check_state(("final", res["status"]), final)

    ops = runner.ops_of(res)
    for t, ent in tg.items():
        if ent["rejected"]:
            for o in ops:
                if o["kind"] in MUTATING and o["path"] == t and o["performed"] and not o["err"]:
                    add("rejected-file-touched", t, ("op", o["proc"], o["task"], o["n"], o["kind"], o["path"]), None)
            if t in res["after"] and t in res["before"] and res["after"][t]["ino"] != res["before"][t]["ino"]:
                add("rejected-file-touched", t, ("final",), {"inode": "changed"})

    # temporary files must be gone after a non-fatal failure
    killed = res["status"] not in ("exit", "exc")
    for rec in res["records"]:
        if rec[0] in ("crash", "wdead", "hang") or (rec[0] == "terminate" and rec[2] > 0) or rec[0] == "global-fault":
            killed = True
    for rec in res["records"]:
        if rec[0] == "out" and rec[2] == "sim" and rec[3].startswith("interrupt-line") and "cleanup=1" in rec[3]:
            killed = True  # the interrupt landed inside the clean-up code itself
    remove_faulted = any(o["kind"] == "remove" and o["fault"] for o in ops) or any(
        o["kind"] == "remove" and o["err"] not in (None, "FileNotFoundError") for o in ops
    )
    if not killed and not remove_faulted:
        for p in final:
            if p in initial or p in tg:
                continue
            if backup and p.endswith(".bak") and p[:-4] in tg:
                continue
            if any(p.startswith(t) for t in tg):
                add("tmp-left-after-nonfatal-failure", p, ("final", res["status"]), None)

    if desc.get("raise_at_update"):
        # the rule failure fired: whichever file was being processed must be untouched; files
        # completed earlier may be fixed, so the per-boundary content check above already covers
        # "never mixed"; here: the task in which it fired saw no mutating op on its target
        last = {}
        fired_tasks = []
        for rec in res["records"]:
            if rec[0] == "task-begin":
                last[rec[1]] = (rec[2], rec[3])
            if rec[0] == "out" and rec[2] == "sim" and rec[3].startswith("raise-at-update") and rec[1] in last:
                fired_tasks.append(last[rec[1]])
        for ft in fired_tasks:
            t = _norm(ft[1])
            if t in tg and not has_dup and final.get(t, (None,))[0] != tg[t]["orig"]:
                add("modified-after-rule-raise", t, ("final",), {"content": final.get(t, (None,))[0]})
    return V


def judge(desc, env, refs=None):
    refs = refs if refs is not None else compute_refs(desc, env)
    if refs is None:
        return None, None
    res = env.run(desc)
    if res["status"] in ("timeout", "harness-error"):
        return res["status"], res
    return evaluate(desc, refs, res), res


# ---------------------------------------------------------------------------------------------
# jobs


def plan(tier, seed):
    jobs = []
    if tier == "quick":
        nsweep, nrand, npool = 24, 100, 140
    else:
        nsweep, nrand, npool = 320, 3000, 4000
    for i in range(nsweep):
        for part in range(SWEEP_PARTS):
            jobs.append({"prop": PROP, "mode": "sweep", "i": i, "part": part, "sizes": "light" if tier == "quick" else "full", "seed": H(seed, tier, PROP, "sweep", i)})
    for i in range(nrand):
        jobs.append({"prop": PROP, "mode": "random", "i": i, "sizes": "light" if tier == "quick" else "full", "seed": H(seed, tier, PROP, "random", i)})
    for i in range(npool):
        jobs.append({"prop": PROP, "mode": "pool", "i": i, "sizes": "light" if tier == "quick" else "full", "seed": H(seed, tier, PROP, "pool", i)})
    jobs += common.regress_jobs(PROP, 24 if tier == "quick" else 400)
    return jobs


def _shape(desc):
    m = desc["meta"]
    return (tuple((f["size"] // 1000, f["mode"], tuple(f["tags"])) for f in m["files"]), m["backup"], m["jobs"], bool(m["dup"]), bool(m["cfgerr"]), m["style"], desc["umask"])


def run_job(job, env):
    out = common.JobResult(job)
    mode = job["mode"]
    seed = job["seed"]
    if mode == "sweep":
        base = gen_base(seed, pool=False, sizes=job.get("sizes", "full"))
        base["hashseed_class"] = job.get("class", 0)
        # the sweep is over single-process runs without duplicate targets
        head, names = _argv_targets(base)
        uniq = []
        for n in names:
            if _norm(n) not in [_norm(u) for u in uniq]:
                uniq.append(n)
        base["argv"] = head + ["-f"] + uniq
        base["meta"]["dup"] = None
        refs = compute_refs(base, env)
        if refs is None:
            out.skipped("reference-run-failed")
            return out.done()
        part = job.get("part", 0)
        V, res = judge(base, env, refs)
        if part == 0:
            out.account(base, res, V, _shape(base), nontrivial=True)
        if isinstance(V, list) and V:
            if part == 0:
                out.violation(base, V)
            return out.done()
        if not isinstance(V, list):
            return out.done()
        ops = [o for o in runner.ops_of(res)]
        nfaults = 0
        cases = []
        for o in ops:
            if o["task"] == "main":
                continue  # argument/configuration handling before any file is read
            for f in faults_for(o["kind"], o["extra"] if isinstance(o["extra"], int) else 0):
                cases.append((o, f))
        for ci, (o, f) in enumerate(cases):
            if ci % SWEEP_PARTS != part:
                continue
            if True:
                d = copy.deepcopy(base)
                d["faults"] = [{"proc": o["task"], "n": o["n"], "kind": o["kind"], "fault": f}]
                V2, r2 = judge(d, env, refs)
                nfaults += 1
                out.account(d, r2, V2, (_shape(base), o["task"], o["n"], o["kind"], tuple(f)), nontrivial=True)
                if isinstance(V2, list) and V2:
                    out.violation(d, V2)
        # a rule raising at each of (up to 12 spread) update calls
        nupd = _count_updates(base, env) if part == 0 else 0
        ks = sorted(set([1, 2, nupd] + [max(1, (nupd * j) // 10) for j in range(1, 10)])) if nupd else []
        for k in ks:
            d = copy.deepcopy(base)
            d["raise_at_update"] = k
            V2, r2 = judge(d, env, refs)
            out.account(d, r2, V2, (_shape(base), "raise", k), nontrivial=True, fault_kind="raise")
            if isinstance(V2, list) and V2:
                out.violation(d, V2)
        # Ctrl-C between any two lines of the write-back functions (sys.settrace, vsg/apply_rules.py)
        if part == 1 % SWEEP_PARTS:
            dl = copy.deepcopy(base)
            dl["interrupt_line"] = 10**9
            rl = env.run(dl)
            nlines = ((rl.get("end") or {}).get("lines") or 0) if isinstance(rl, dict) else 0
            want = list(range(1, nlines + 1))
            if job.get("sizes") == "light" and len(want) > 14:
                step = len(want) / 14.0
                want = sorted({want[int(i * step)] for i in range(14)})
            for k in want:
                d = copy.deepcopy(base)
                d["interrupt_line"] = k
                V2, r2 = judge(d, env, refs)
                out.account(d, r2, V2, (_shape(base), "interrupt-line", k), nontrivial=True)
                if isinstance(V2, list) and V2:
                    out.violation(d, V2)
            out.stat("interrupt_line_points", len(want))
        if part == 0:
            out.stat("sweep_workloads", 1)
            out.stat("sweep_ops", len([o for o in ops if o["task"] != "main"]))
            out.stat("sweep_cases", len(cases) + len(ks))
        out.sample({"mode": "sweep", "argv": base["argv"], "files": base["meta"]["files"], "ops": [[o["task"], o["n"], o["kind"], o["path"]] for o in ops if o["task"] != "main"][:40], "single_fault_runs": nfaults, "raise_points": ks})
        return out.done()

    if mode == "regress":
        d = common.regress_desc(job)
        d["hashseed_class"] = job.get("class", 0)
        V, res = judge(d, env)
        if V is None:
            out.skipped("reference-run-failed")
            return out.done()
        out.account(d, res, V, ("regress", job["file"], common.trace_hash(res)), nontrivial=True)
        out.stat("regression_replays", 1)
        if isinstance(V, list) and V:
            out.violation(d, V)
        return out.done()
    pool = mode == "pool"
    base = gen_base(seed, pool=pool, sizes=job.get("sizes", "full"))
    base["hashseed_class"] = job.get("class", 0)
    refs = compute_refs(base, env)
    if refs is None:
        out.skipped("reference-run-failed")
        return out.done()
    rng = substream(seed, "faults")
    d = copy.deepcopy(base)
    faults = []
    nf = rng.choice([0, 0, 0, 1, 1, 2, 2, 3]) if pool else rng.choice([1, 1, 2, 2, 3])
    if base["meta"]["dup"] and rng.random() < 0.5:
        nf = 0
    if base["meta"].get("dupfocus"):
        nf = 0
        d["policy"] = "uniform"
    addr = []
    order = _task_order(base)
    for ti, t in enumerate(order):
        ent = refs["targets"].get(_norm(t))
        if ent:
            for (_tk, n, kind, extra) in ent["ops"]:
                addr.append((ti, n, kind, extra))
    for _ in range(nf):
        if not addr:
            break
        ti, n, kind, extra = rng.choice(addr)
        fl = faults_for(kind, extra if isinstance(extra, int) else 0)
        if not fl:
            continue
        cat = rng.choice(["err", "err", "crash", "partial", "interrupt", "interrupt", "disk-full", "short"])
        fl2 = [x for x in fl if x[0] == cat] or fl
        f = rng.choice(fl2)
        if f[0] == "partial":
            L = extra if isinstance(extra, int) else 0
            if L > 1 and rng.random() < 0.5:
                f = ["partial", rng.randrange(L), f[2]]
        if any(x["proc"] == ti and x["n"] == n for x in faults):
            continue
        faults.append({"proc": ti, "n": n, "kind": kind, "fault": f})
    r = rng.random()
    if pool and r < 0.25 and nf:
        kind = rng.choice(["sys-kill", "owner-kill", "ctrl-c"])
        faults.append({"step": rng.randint(1, 12 * len(order)), "fault": [kind]})
    elif r < 0.35:
        d["raise_at_update"] = rng.randint(1, 60)
    d["faults"] = faults
    V, res = judge(d, env, refs)
    sched = common.trace_hash(res)
    fired = tuple(sorted(map(repr, (res.get("end") or {}).get("fired", []) or []))) if isinstance(res, dict) else ()
    out.account(d, res, V, (_shape(base), sched, fired), nontrivial=True)
    if isinstance(V, list) and V:
        out.violation(d, V)
    if job["i"] < 2:
        out.sample({"mode": mode, "argv": d["argv"], "files": base["meta"]["files"], "faults": faults, "raise_at_update": d.get("raise_at_update"), "schedule": ((res.get("end") or {}).get("trace") or [])[:60], "status": res["status"]})
    return out.done()


def _task_order(desc):
    head, names = _argv_targets(desc)
    return names


def _count_updates(base, env):
    d = copy.deepcopy(base)
    d["raise_at_update"] = 10**9
    r = env.run(d)
    if r["end"]:
        return r["end"].get("updates") or 0
    return 0


def replay_job(job, env):
    desc = job["desc"]
    V, res = judge(desc, env)
    if V is None:
        return {"status": "reference-run-failed", "violations": []}
    if not isinstance(V, list):
        return {"status": V, "violations": [], "fatal": "replay ended with %s" % V}
    return {"status": res["status"], "violations": V, "trace": (res.get("end") or {}).get("trace")}
