"""Known findings: genuine defects of the tree that were recorded rather than repaired.
The file is committed and never written at run time.  A violation matches an open finding when
every predicate of the finding's signature holds for (descriptor, violation)."""
import json
import os

HERE = os.path.dirname(os.path.dirname(os.path.abspath(__file__)))


def load():
    p = os.path.join(HERE, "known_findings.json")
    if not os.path.exists(p):
        return []
    with open(p) as fh:
        d = json.load(fh)
    return d.get("findings", [])


def _names(desc):
    a = desc.get("argv") or []
    if "-f" in a:
        return [os.path.normpath(x) for x in a[a.index("-f") + 1 :]]
    return []


def _pred(key, want, desc, v):
    if key == "class_in":
        return v.get("class") in want
    if key == "argv_has_all":
        return all(x in (desc.get("argv") or []) for x in want)
    if key == "dup_target":
        n = _names(desc)
        return (len(set(n)) != len(n)) == bool(want)
    if key == "violating_target_is_dup":
        n = _names(desc)
        t = v.get("target")
        base = t
        for suf in (".tmp", ".bak"):
            if base and base.endswith(suf):
                base = base[: -len(suf)]
        return (n.count(os.path.normpath(base)) >= 2) == bool(want) if base else False
    if key == "jobs_gt1":
        a = desc.get("argv") or []
        j = int(a[a.index("-p") + 1]) if "-p" in a else int(desc.get("cpu_count", 1))
        return (j > 1) == bool(want)
    if key == "stdin":
        return ("--stdin" in (desc.get("argv") or [])) == bool(want)
    if key == "exc_type":
        return ((v.get("observed") or {}).get("exc") or {}).get("type") == want
    if key == "exc_frame_contains":
        fr = ((v.get("observed") or {}).get("exc") or {}).get("frames") or []
        return any(want in f for f in fr)
    if key == "reader_in":
        return (v.get("observed") or {}).get("reader") in want
    if key == "writer_prefix_any":
        ws = (v.get("observed") or {}).get("writers") or []
        return bool(ws) and all(any(w.startswith(p) for p in want) for w in ws)
    if key == "member_in":
        return (v.get("observed") or {}).get("member") in want
    if key == "member_is":
        return (v.get("observed") or {}).get("member") == want
    if key == "fixers_nonempty_subset_of":
        fx = (v.get("observed") or {}).get("fixers") or []
        return bool(fx) and all(f in want for f in fx)
    if key == "every_fixer_derives_from_one_of":
        fx = (v.get("observed") or {}).get("fixers") or []
        fb = (v.get("observed") or {}).get("fixer_bases") or {}
        return bool(fx) and all(any(b in want for b in fb.get(f, [])) for f in fx)
    if key == "every_fixer_base_name_contains_one_of":
        fx = (v.get("observed") or {}).get("fixers") or []
        fb = (v.get("observed") or {}).get("fixer_bases") or {}
        return bool(fx) and all(any(w in b for b in fb.get(f, []) for w in want) for f in fx)
    if key == "some_input_has_whitespace_only_line":
        import base64
        import re

        for f in desc.get("sandbox") or []:
            if f["path"].endswith(".vhd") and re.search(rb"(?m)^[ \t]+\r?$", base64.b64decode(f["b64"])):
                return bool(want)
        return not want
    if key == "unclassified_token_is_other_whitespace":
        import ast

        w = (v.get("observed") or {}).get("what") or ""
        if not w.startswith("unclassified token "):
            return not want
        try:
            tok = ast.literal_eval(w[len("unclassified token ") :])
        except Exception:
            return not want
        ok = isinstance(tok, str) and tok != "" and tok.isspace() and " " not in tok and "\t" not in tok
        return ok == bool(want)
    raise KeyError("unknown signature predicate %r" % key)


def match(findings, prop, desc, v):
    for f in findings:
        if f.get("status") != "open" or f.get("property") != prop:
            continue
        if all(_pred(k, w, desc, v) for k, w in f["signature"].items()):
            return f
    return None
