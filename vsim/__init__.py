"""vsim: deterministic simulation with fault injection for vhdl-style-guide (see /verif/DESIGN.md)."""
