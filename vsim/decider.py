"""Single source of every simulated choice: an explicit decision list first, then a seeded PRNG.

Every decision taken is recorded; the recorded list *is* the schedule trace of a replay file.
Options and decisions are JSON-able lists such as ["step", 1] so that a trace can be written to a
replay file and fed back verbatim.
"""
import hashlib
import random


def H(*parts):
    """Stable 63-bit hash of the parts (never Python's hash(): that depends on PYTHONHASHSEED)."""
    h = hashlib.sha256(repr(parts).encode()).digest()
    return int.from_bytes(h[:8], "big") >> 1


def substream(seed, name):
    return random.Random(H(seed, name))


class Decider:
    def __init__(self, seed, explicit=None, policy=None):
        self.rng = random.Random(H(seed, "schedule"))
        self.explicit = [list(x) for x in (explicit or [])]
        self.pos = 0
        self.trace = []
        self.mismatch = 0
        # scheduling policy only biases the PRNG fallback; replay never needs it
        self.policy = policy or self.rng.choice(["uniform"] * 10 + ["sticky"] * 4 + ["runahead"] * 3 + ["starve"] * 3)
        self.last = None
        self.starved = self.rng.randrange(8)

    def _weights(self, options):
        w = []
        for o in options:
            x = 1.0
            if self.policy == "sticky":
                if self.last is not None and o[0] == "step" and o[1:2] == self.last[1:2]:
                    x = 6.0
            elif self.policy == "runahead":
                # workers run far ahead of delivery
                if o[0] == "deliver":
                    x = 0.15
            elif self.policy == "starve":
                if o[0] in ("step", "dispatch") and o[1] == self.starved % 4:
                    x = 0.05
            w.append(x)
        return w

    def choose(self, options):
        """options: non-empty list of JSON-able lists, in a deterministic order."""
        options = [list(o) for o in options]
        c = None
        if self.pos < len(self.explicit):
            c = self.explicit[self.pos]
            self.pos += 1
            if c not in options:
                self.mismatch += 1
                c = None
        if c is None:
            if len(options) == 1:
                c = options[0]
            else:
                c = self.rng.choices(options, weights=self._weights(options))[0]
        self.last = c
        self.trace.append(c)
        return c
