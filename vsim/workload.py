"""Corpus access and generators for sandbox contents, argv and configuration text.
Everything is a pure function of the PRNG handed in."""
import base64
import glob
import os

from vsim import wire

REPO = os.environ.get("VERIF_REPO", "/repo")
HERE = os.path.dirname(os.path.dirname(os.path.abspath(__file__)))

_CORPUS = None

STYLES = [None, None, "jcl", "indent_only"]

BAD_VHDL = [
    b"entity is is;\n",
    b"architecture rtl of e is\nbegin\n  process (clk) begin\n    if a then\n  end process;\nend architecture;\n",
    b"library ieee;\nentity e is\n  port (a : in std_logic;\n",
]

TINY = [
    b"library ieee;\nuse ieee.std_logic_1164.all;\nentity e is\n  port (a : in std_logic;\n    b : out std_logic);\nend entity;\n",
    b"architecture RTL of FIFO is\n\n  signal a :std_logic;\nbegin\n  a<= b  and c;\nend architecture RTL;\n",
    b"package p is\n  constant c : integer:=1;\nend package p;\n",
]


def corpus():
    """Sorted list of (path, size) of candidate VHDL inputs in the tree's tests and /verif/corpus."""
    global _CORPUS
    if _CORPUS is None:
        fs = sorted(glob.glob(os.path.join(REPO, "tests", "**", "*.vhd"), recursive=True))
        fs += sorted(glob.glob(os.path.join(HERE, "corpus", "*.vhd")))
        out = []
        for f in fs:
            try:
                sz = os.path.getsize(f)
            except OSError:
                continue
            if 0 < sz <= 60000:
                out.append((f, sz))
        _CORPUS = out
    return _CORPUS


def read(path):
    with open(path, "rb") as fh:
        return fh.read()


def pick_file(rng, lo=1, hi=6000):
    c = [p for p, s in corpus() if lo <= s <= hi]
    return rng.choice(c)


def pick_bytes(rng, size_class=None):
    """Returns (label, bytes).  size classes: small (<2 KB), mid (2-8 KB), big (8-20 KB, crosses the
    8 KiB buffer of text files), huge (~40 KB).  big/huge are partly synthesised by concatenating
    design files."""
    sc = size_class or rng.choice(["small"] * 6 + ["mid"] * 3 + ["big"] * 2 + ["huge"])
    if sc == "small":
        if rng.random() < 0.1:
            i = rng.randrange(len(TINY))
            return "tiny%d" % i, TINY[i]
        p = pick_file(rng, 1, 2000)
        return os.path.relpath(p, REPO), read(p)
    if sc == "mid":
        p = pick_file(rng, 2000, 8000)
        return os.path.relpath(p, REPO), read(p)
    lo, hi = (8500, 20000) if sc == "big" else (30000, 60000)
    if rng.random() < 0.4:
        c = [p for p, s in corpus() if lo <= s <= hi]
        if c:
            p = rng.choice(c)
            return os.path.relpath(p, REPO), read(p)
    parts, names, total = [], [], 0
    target = rng.randint(lo, hi)
    while total < target:
        p = pick_file(rng, 300, 6000)
        b = read(p)
        if not b.endswith(b"\n"):
            b += b"\n"
        parts.append(b)
        names.append(os.path.basename(p))
        total += len(b)
    return "concat(%s)" % ",".join(names[:4]), b"\n".join(parts)


def perturb_bytes(rng, data, noise=0.25):
    """Line-end / encoding variants that exercise the read path.  Returns (tags, bytes)."""
    tags = []
    r = rng.random()
    if r < 0.12:
        data = data.replace(b"\r\n", b"\n").replace(b"\n", b"\r\n")
        tags.append("crlf")
    r = rng.random()
    if r < 0.12 and data.endswith(b"\n"):
        data = data.rstrip(b"\r\n")
        tags.append("nofinalnl")
    r = rng.random()
    if r < 0.08:
        lines = data.split(b"\n")
        i = rng.randrange(len(lines))
        lines.insert(i, b"-- caf\xe9 \xb5s")
        data = b"\n".join(lines)
        tags.append("latin1")
    elif r < 0.18:
        # valid UTF-8 beyond ASCII (some of it beyond Latin-1 too): must come back as UTF-8
        lines = data.split(b"\n")
        i = rng.randrange(len(lines))
        lines.insert(i, rng.choice(["-- café µs", "-- Größe → ✓", "-- température ≤ 85 °C"]).encode("utf-8"))
        data = b"\n".join(lines)
        tags.append("utf8")
    r = rng.random()
    if r < noise:
        data = layout_noise(rng, data)
        tags.append("noise")
    return tags, data


def layout_noise(rng, data, density=0.15):
    """Plant layout that only whitespace rules care about: trailing blanks/tabs, whitespace-only
    lines, doubled blank lines.  The token sequence of the design is unchanged."""
    nl = b"\r\n" if b"\r\n" in data else b"\n"
    lines = data.split(nl)
    out = []
    for ln in lines:
        r = rng.random()
        if r < density and ln.strip() and not ln.rstrip().endswith(b"\\"):
            ln = ln + rng.choice([b" ", b"   ", b"\t", b" \t "])
        out.append(ln)
        r = rng.random()
        if r < density / 3:
            out.append(rng.choice([b"  ", b"\t", b"", b"    "]))
    return nl.join(out)


KEYWORDS = [b"signal", b"constant", b"variable", b"begin", b"end", b"process", b"entity", b"architecture", b"port", b"generic", b"if", b"then", b"else", b"case", b"when", b"is", b"of", b"in", b"out", b"downto", b"to"]


PLANT_PHASE = {0: 4, 1: 6, 2: 2, 3: 1}  # kind of edit -> phase of the rules that object to it


def plant_violations(rng, data, density=0.15, phases=None):
    """Meaning-preserving edits that create style violations in several phases at once: extra or
    missing indentation (phase 4), keywords in the other case (phase 6), doubled blanks (phase 2),
    trailing blanks (phase 1).  Lines with string literals or comments are left alone."""
    import re

    nl = b"\r\n" if b"\r\n" in data else b"\n"
    out = []
    for ln in data.split(nl):
        if ln.strip() and b'"' not in ln and b"--" not in ln and b"'" not in ln and rng.random() < density:
            kinds = [k for k in range(4) if phases is None or PLANT_PHASE[k] in phases]
            if not kinds:
                out.append(ln)
                continue
            k = rng.choice(kinds)
            if k == 0:
                ln = rng.choice([b" ", b"   ", b""]) + ln.lstrip(b" ") if rng.random() < 0.5 else b"  " + ln
            elif k == 1:
                for kw in rng.sample(KEYWORDS, 4):
                    pat = re.compile(rb"\b" + kw + rb"\b", re.I)
                    m = pat.search(ln)
                    if m:
                        w = m.group(0)
                        ln = ln[: m.start()] + (w.upper() if w.islower() else w.lower()) + ln[m.end() :]
                        break
            elif k == 2:
                i = ln.find(b" ", len(ln) - len(ln.lstrip(b" ")) + 1)
                if i > 0:
                    ln = ln[:i] + b"  " + ln[i:]
            else:
                ln = ln + b"  "
        out.append(ln)
    return nl.join(out)


def sb_entry(path, data, mode="644"):
    return {"path": path, "mode": mode, "b64": base64.b64encode(data).decode()}


def sb_bytes(entry):
    return base64.b64decode(entry["b64"])


def sb_digest(entry):
    return wire.digest(sb_bytes(entry))


MODES = ["644", "644", "600", "600", "640", "640", "755", "755", "444", "444", "664", "664", "4755", "2644", "400", "666"]
UMASKS = ["022", "077", "002"]


_DOMAINS = None


def option_domains():
    """Documented values of rule options, harvested from the tree's own documentation
    (docs/*.rst: `.. |<option>__<value>| replace:: :code:`<value>`` substitutions) plus three
    options documented in prose.  The vocabulary for generated configurations."""
    global _DOMAINS
    if _DOMAINS is None:
        import re

        dom = {}
        docs = os.path.join(REPO, "docs")
        if not os.path.isdir(docs):
            docs = "/repo/docs"
        for f in sorted(glob.glob(os.path.join(docs, "*.rst"))):
            try:
                t = open(f, encoding="utf-8", errors="replace").read()
            except OSError:
                continue
            for m in re.finditer(r"\.\. \|(\w+?)__(\w+)\| replace::\s*\n\s+:code:`([^`]+)`", t):
                dom.setdefault(m.group(1), set()).add(m.group(3))
        dom = {k: sorted(v) for k, v in dom.items() if len(v) >= 2}
        dom.pop("standard", None)
        dom.pop("method", None)
        dom.pop("action", None)
        dom["case"] = ["lower", "upper"]
        dom["indent_size"] = [2, 3, 4]
        dom["length"] = [40, 80, 120]
        _DOMAINS = dom
    return _DOMAINS


def random_options(rng, rule, density=1.0):
    """rule: entry of runner.RULES.  A random documented value for each of its options that has a
    known domain (each with probability `density`)."""
    dom = option_domains()
    out = {}
    for o in rule[6]:
        if o in dom and rng.random() < density:
            out[o] = rng.choice(dom[o])
    return out


_INDENT = None


def indent_entries():
    """(group, token, key, default) of the tree's indent map (vsg/vhdlFile/indent/indent_config.yaml)."""
    global _INDENT
    if _INDENT is None:
        out = []
        try:
            import yaml

            with open(os.path.join(REPO, "vsg", "vhdlFile", "indent", "indent_config.yaml")) as fh:
                d = yaml.safe_load(fh)
            for g, toks in sorted(d["indent"]["tokens"].items()):
                for t, kv in sorted(toks.items()):
                    for k, v in sorted(kv.items()):
                        out.append((g, t, k, v))
        except Exception:
            out = []
        _INDENT = out
    return _INDENT


INDENT_VALUES = ["current", "+1", "-1", 0, 1]


def random_indent_config(rng):
    """A few entries of the indent map set to other documented values; the rarely used keys (those
    that are not token/after, e.g. use_clause.keyword.token_if_no_matching_library_clause) are
    preferred half of the time."""
    ents = indent_entries()
    if not ents:
        return None
    special = [e for e in ents if e[2] not in ("token", "after")]
    cfg = {}
    for _ in range(rng.choice([1, 1, 2, 3])):
        g, t, k, v = rng.choice(special) if special and rng.random() < 0.5 else rng.choice(ents)
        nv = rng.choice([x for x in INDENT_VALUES if str(x) != str(v)])
        cfg.setdefault(g, {}).setdefault(t, {})[k] = nv
    return {"tokens": cfg}


LOCAL_RULE = """# -*- coding: utf-8 -*-
from vsg import rule, token, violation


class rule_001(rule.Rule):
    def __init__(self):
        super().__init__()
        self.name = "%(name)s"
        self.unique_id = "%(name)s_001"
        self.phase = %(phase)d
        self.fixable = False
        self.solution = "%(name)s: local rule objects to this design unit"

    def analyze(self, oFile):
        for oToi in oFile.get_tokens_matching([token.%(tok)s]):
            self.add_violation(violation.New(oToi.get_line_number(), oToi, self.solution))
"""


LOCAL_RULE_DOC = """# -*- coding: utf-8 -*-
from vsg import rule, token, violation


class rule_%(num)s(rule.Rule):
    def __init__(self):
        super().__init__()
        self.name = "%(name)s"
        self.phase = %(phase)d
        self.fixable = False
        self.solution = "%(name)s_%(num)s: local rule objects to this design unit"

    def analyze(self, oFile):
        lWanted = [token.%(tok)s, token.library_clause.keyword, token.package_declaration.package_keyword, token.process_statement.process_keyword]
        for oToi in oFile.get_tokens_matching(lWanted):
            self.add_violation(violation.New(oToi.get_line_number(), oToi, self.solution))
"""


def local_rules_documented(rng):
    """User rules written the way docs/localizing.rst shows (only `name` is set after construction):
    two or three groups, two of which number their rule 001."""
    kinds = [("localized", "001", "entity_declaration.entity_keyword"), ("naming", "001", "architecture_body.architecture_keyword"), ("naming", "002", "process_statement.process_keyword"), ("house", "001", "entity_declaration.entity_keyword")]
    picks = rng.sample(kinds, rng.choice([2, 3, 4]))
    out = []
    for name, num, tok in picks:
        out.append(sb_entry("lr/rule_%s_%s.py" % (name, num), (LOCAL_RULE_DOC % {"name": name, "num": num, "tok": tok, "phase": rng.choice([1, 7, 7])}).encode()))
    return out


def local_rules(rng):
    """Two or three user rule modules for a --local_rules directory (sandbox entries)."""
    kinds = [("locala", "entity_declaration.entity_keyword"), ("localb", "architecture_body.architecture_keyword"), ("localc", "process_statement.process_keyword"), ("locald", "entity_declaration.entity_keyword")]
    out = []
    for name, tok in rng.sample(kinds, rng.choice([2, 3])):
        out.append(sb_entry("lr/rule_%s_001.py" % name, (LOCAL_RULE % {"name": name, "tok": tok, "phase": rng.choice([1, 7, 7])}).encode()))
    return out


def random_group_config(rng, rules):
    """A [rule][group] section: one to three groups, preferring a group together with one of its
    sub-groups ("case" and "case::keyword") with *conflicting* settings - the documented way to
    switch a family off and one branch of it back on."""
    groups = sorted({g for r in rules for g in r[8]})
    if not groups:
        return None
    parents = sorted({g for g in groups if any(h.startswith(g + "::") for h in groups)})
    out = {}
    if parents and rng.random() < 0.7:
        p = rng.choice(parents)
        c = rng.choice([h for h in groups if h.startswith(p + "::")])
        a = rng.random() < 0.5
        out[p] = {"disable": a}
        out[c] = {"disable": not a}
        if "case" in c and rng.random() < 0.5:
            out[c]["case"] = rng.choice(["upper", "lower"])
    for g in rng.sample(groups, rng.choice([0, 1, 2])):
        out.setdefault(g, {})[rng.choice(["disable", "fixable"])] = rng.random() < 0.5
    items = list(out.items())
    rng.shuffle(items)
    return dict(items)
