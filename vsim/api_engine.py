"""Engine 'api' (C06): inside the forked child, drive the real vhdlFile / rule_list / configuration
API through *analysis schedules* - order, enabled subset, phase re-assignment, repetition - over one
shared token list, and report per-rule violations plus read-only digests after every step.

Everything that decides anything (which schedules, which permutation) is in the descriptor; the
child only executes it.  No fault kind applies here (DESIGN.md 4 / C06, honest note)."""
import hashlib
import io
import os
import random
import re
import sys
import types

from vsim import seams, wire
from vsim.decider import H


def canon(o, depth=0, seen=None):
    """Structural, address-free rendering of an object graph (token attributes)."""
    if seen is None:
        seen = set()
    if depth > 6:
        return "<deep>"
    if isinstance(o, (str, int, float, bool, type(None), bytes)):
        return repr(o)
    if isinstance(o, type):
        return "C:" + o.__module__ + "." + o.__qualname__
    if isinstance(o, (types.FunctionType, types.BuiltinFunctionType, types.ModuleType, types.MethodType)):
        return "F:" + getattr(o, "__name__", "?")
    if isinstance(o, re.Pattern):
        return "RE:" + o.pattern
    if id(o) in seen:
        return "<cycle>"
    seen = seen | {id(o)}
    if isinstance(o, (list, tuple)):
        return "[" + ",".join(canon(x, depth + 1, seen) for x in o) + "]"
    if isinstance(o, (set, frozenset)):
        return "{" + ",".join(sorted(canon(x, depth + 1, seen) for x in o)) + "}"
    if isinstance(o, dict):
        return "{" + ",".join(sorted(canon(k, depth + 1, seen) + ":" + canon(v, depth + 1, seen) for k, v in o.items())) + "}"
    if hasattr(o, "__dict__"):
        return "O:" + type(o).__qualname__ + canon(vars(o), depth + 1, seen)
    return "X:" + type(o).__name__


def md5(s):
    return hashlib.md5(s.encode("utf-8", "replace")).hexdigest()[:16]


class Session:
    """One (file, configuration) under the real API."""

    def __init__(self, desc, root):
        import vsg.apply_rules as ar
        import vsg.cmd_line_args as cla_mod
        import vsg.config as config
        import vsg.rule_list as rule_list
        import vsg.vhdlFile as vf_pkg

        self.ar, self.config, self.rule_list, self.vf_pkg, self.cla_mod = ar, config, rule_list, vf_pkg, cla_mod
        self.desc, self.root = desc, root
        self.name = desc["file"]
        self.counter = 0

    def write_cfg(self, cfg):
        import json

        self.counter += 1
        p = "cfg%d.json" % self.counter
        with seams.REAL["open"](os.path.join(self.root, p), "w") as fh:
            json.dump(cfg, fh)
        return p

    def merged(self, extra_cfg):
        """Style + base configuration + schedule perturbation as ONE configuration, merged per rule
        *attribute*.  (VSG's own stacking of several -c files replaces a rule's whole entry, so a
        later {"rule": {"x": {"disable": true}}} would silently drop the style's options for x;
        that is configuration precedence, C12's subject, and must not leak into this check.)"""
        import copy

        import yaml

        cfg = {}
        if self.desc.get("style"):
            p = os.path.join(os.path.dirname(self.config.__file__), "styles", self.desc["style"] + ".yaml")
            with seams.REAL["open"](p) as fh:
                cfg = yaml.full_load(fh) or {}
        for layer in (self.desc.get("base_config"), extra_cfg):
            if not layer:
                continue
            for k, v in layer.items():
                if k == "rule":
                    rules = cfg.setdefault("rule", {})
                    for uid, opts in v.items():
                        cur = rules.get(uid)
                        if isinstance(cur, dict) and isinstance(opts, dict):
                            cur.update(copy.deepcopy(opts))
                        else:
                            rules[uid] = copy.deepcopy(opts)
                else:
                    cfg[k] = copy.deepcopy(v)
        return cfg

    def build(self, extra_cfg=None):
        """Fresh parse + fresh rule list, configured through the real configuration path."""
        argv = ["vsg", "-p", "1"]
        cfg = self.merged(extra_cfg)
        if cfg:
            argv += ["-c", self.write_cfg(cfg)]
        if self.desc.get("local_rules"):
            argv += ["-lr", self.desc["local_rules"]]
        argv += ["-f", self.name]
        sys.argv = argv
        cla = self.cla_mod.parse_command_line_arguments()
        if cla.local_rules and os.path.abspath(cla.local_rules) not in sys.path:
            sys.path.append(os.path.abspath(cla.local_rules))  # as vsg.__main__.main does
        oConfig = self.config.New(cla)
        lines, err = self.vf_pkg.utils.read_vhdlfile(self.name)
        oFile = self.vf_pkg.vhdlFile(lines, cla, self.name, err, oConfig)
        oFile.set_indent_map(oConfig.dIndent)
        oRules = self.rule_list.rule_list(oFile, oConfig.severity_list, cla.local_rules)
        self.ar.configure_rules(oConfig, oRules, oConfig.dConfig, 0, self.name)
        return oFile, oRules, cla


def U(r):
    """The rule's identity as configuration and reports know it (name_identifier).  For the built-in
    rules this is the `unique_id` attribute; a local rule written the documented way only sets
    `name` after construction, so its `unique_id` attribute is not unique."""
    return str(getattr(r, "name", None)) + "_" + str(getattr(r, "identifier", None))


def text_of(oFile):
    return md5("\n".join(oFile.get_lines()))


def light_of(oFile):
    return md5(canon([(type(t).__module__ + "." + type(t).__name__, t.get_value()) for t in oFile.lAllObjects]))


def full_items(oFile):
    return [(type(t).__name__, canon(vars(t))) for t in oFile.lAllObjects]


def full_of(oFile):
    return md5(canon(full_items(oFile)))


def shallow_items(oFile):
    """Cheap pristine snapshot of every token: (type, shallow copy of its attribute dict)."""
    out = []
    for t in oFile.lAllObjects:
        d = {}
        for k, v in vars(t).items():
            d[k] = v.copy() if isinstance(v, (list, dict, set)) else v
        out.append((type(t), d))
    return out


def map_snapshot(oFile):
    import copy

    try:
        return copy.deepcopy(oFile.oTokenMap.dMap)
    except AttributeError:
        return None


def map_dirty(oFile, msnap):
    try:
        return oFile.oTokenMap.dMap != msnap
    except AttributeError:
        return False


def is_dirty(oFile, snap):
    toks = oFile.lAllObjects
    if len(toks) != len(snap):
        return True
    for t, (ty, d) in zip(toks, snap):
        if type(t) is not ty or vars(t) != d:
            return True
    return False


def dirty_attrs(oFile, snap):
    names = set()
    for t, (ty, d) in zip(oFile.lAllObjects, snap):
        if type(t) is not ty:
            names.add(ty.__name__ + "->" + type(t).__name__)
            continue
        cur = vars(t)
        for k in set(cur) | set(d):
            if k not in cur or k not in d or cur[k] != d[k]:
                names.add(type(t).__name__ + "." + k)
    if len(oFile.lAllObjects) != len(snap):
        names.add("<token count>")
    return sorted(names)[:8]


def vio(r):
    return sorted((str(d["lineNumber"]), str(d["solution"])) for d in r.get_violations())


def changed_attrs(oFile, before_items):
    """Names of token attributes that differ from the pristine state (for the writer probe)."""
    names = set()
    for t, (tn, c0) in zip(oFile.lAllObjects, before_items):
        c1 = canon(vars(t))
        if c1 != c0:
            for k, v in vars(t).items():
                if ("%r:%s" % (k, canon(v, 1))) not in c0:
                    names.add(type(t).__name__ + "." + k)
    return sorted(names)[:8]


def real_rules(oRules):
    return [r for r in oRules.rules if int(r.phase) != 0]


def instrument(oRules, ran):
    for r in oRules.rules:
        orig = r.analyze

        def wrapped(oFile, _orig=orig, _r=r):
            ran.append(U(_r))
            return _orig(oFile)

        r.analyze = wrapped


def schedule_cfg(s):
    rule = {}
    for uid in s.get("disable", []):
        rule.setdefault(uid, {})["disable"] = True
    for uid in s.get("enable", []):
        rule.setdefault(uid, {})["disable"] = False
    for uid, ph in (s.get("phase") or {}).items():
        rule.setdefault(uid, {})["phase"] = int(ph)
    return {"rule": rule} if rule else None


def order_rules(oRules, s):
    if s.get("order"):
        pos = {u: i for i, u in enumerate(s["order"])}
        oRules.rules.sort(key=lambda r: pos.get(U(r), 1 << 30))
    elif s.get("perm_seed") is not None:
        rng = random.Random(H(s["perm_seed"], "perm"))
        oRules.rules.sort(key=lambda r: U(r))
        rng.shuffle(oRules.rules)


def run_api(desc, root, rec):
    import vsg.severity as severity  # noqa

    ctl = _QuietCtl()
    ctx = seams.Ctx(root, ctl)
    seams.activate(ctx, 0)
    sys.stdout = io.StringIO()
    sys.stderr = io.StringIO()
    S = Session(desc, root)
    out = {"meta": {}, "alone": None, "writers": {}, "canon": None, "schedules": [], "errors": []}

    # ---- reference A: every rule alone on a pristine file (all real rules switched on)
    if desc.get("want_alone", True):
        try:
            oFile, oRules, _ = S.build()
        except (Exception, SystemExit) as e:  # the file is not accepted by VSG: not a C06 case
            out["rejected"] = type(e).__name__
            rec.emit("api-result", out)
            rec.emit("end", {"exit": 0, "exc": None, "trace": [], "mismatch": 0, "policy": None, "fired": [], "skipped": [], "unsimulated": [], "updates": None, "lines": None, "probes": {}})
            return
        L0, T0 = light_of(oFile), text_of(oFile)
        snap = shallow_items(oFile)
        msnap = map_snapshot(oFile)
        alone = {}
        reparse = 0
        single = desc.get("alone_order")  # "fwd" / "rev": one pass only (the orchestrator runs each pass in a child of its own)
        for r in sorted(real_rules(oRules), key=lambda r: U(r), reverse=(single == "rev")):
            r.disable = False
            r.violations = []
            try:
                r.analyze(oFile)
                alone[U(r)] = vio(r)
            except Exception as e:  # a rule that dies alone is C19's subject; it is left out
                alone[U(r)] = None
                out["errors"].append(("alone", U(r), type(e).__name__))
            r.violations = []
            md = map_dirty(oFile, msnap)
            if md or is_dirty(oFile, snap):
                out["writers"][U(r)] = {"attrs": (["<token map>"] if md else []) + dirty_attrs(oFile, snap), "text": text_of(oFile) != T0, "class": light_of(oFile) != L0}
                oFile2, oRules2, _ = S.build()
                # keep analysing with the remaining rule objects on a fresh file object
                oFile = oFile2
                snap = shallow_items(oFile)
                msnap = map_snapshot(oFile)
                reparse += 1
        # The pass above shares one file object (and one rule list) between rules for speed; state
        # that lives outside the tokens and the token map (a cache hung on the map object, a module
        # level list, ...) would contaminate it unnoticed.  So the same is done once more in the
        # opposite order on fresh objects; a rule whose two answers differ is a *suspect* and gets a
        # reference of its own from a fresh parse and a fresh rule list.
        oFileB, oRulesB, _ = S.build()
        snapB, msnapB = shallow_items(oFileB), map_snapshot(oFileB)
        aloneB = {}
        for r in sorted(real_rules(oRulesB), key=lambda r: U(r), reverse=True) if not single else []:
            r.disable = False
            r.violations = []
            try:
                r.analyze(oFileB)
                aloneB[U(r)] = vio(r)
            except Exception:
                aloneB[U(r)] = None
            r.violations = []
            if map_dirty(oFileB, msnapB) or is_dirty(oFileB, snapB):
                oFileB, _x, _y = S.build()
                snapB, msnapB = shallow_items(oFileB), map_snapshot(oFileB)
        suspects = sorted(u for u in alone if alone[u] != aloneB.get(u, alone[u]))
        for u in suspects[:40]:
            oF, oR, _ = S.build()
            for r in oR.rules:
                if U(r) == u:
                    r.disable = False
                    r.violations = []
                    try:
                        r.analyze(oF)
                        alone[u] = vio(r)
                    except Exception:
                        alone[u] = None
        out["suspects"] = suspects
        out["alone"] = alone
        # ---- reference for *dependent* rules (the documented exception): a rule B of sub-phase s may
        # depend on the rules of the same phase with a smaller sub-phase, and on nothing else.  So
        # dep[B] = report of B analysed right after exactly those predecessors (the ones the
        # default configuration enables, in canonical order) on a pristine parse.
        dep, dep_preds = {}, {}
        if desc.get("want_dep"):  # ~25 extra parses per file: thorough tier and /verif/corpus files
            try:
                dep, dep_preds, dsus = dependent_reference(S)
                out["dep_suspects"] = dsus
            except Exception as e:
                out["errors"].append(("dep-reference", type(e).__name__, str(e)[:120]))
        out["dep"] = dep
        out["dep_preds"] = dep_preds
        out["meta"]["reparses"] = reparse
        out["meta"]["text0"], out["meta"]["light0"] = T0, L0

    # ---- a rule's report from objects (and, being a child of its own, a process) nobody else touched
    if desc.get("suspect_rules"):
        fresh = {}
        for u in desc["suspect_rules"]:
            try:
                oF, oR, _ = S.build()
            except (Exception, SystemExit):
                break
            for r in oR.rules:
                if U(r) == u:
                    r.disable = False
                    r.violations = []
                    try:
                        r.analyze(oF)
                        fresh[u] = vio(r)
                    except Exception:
                        fresh[u] = None
        out["fresh"] = fresh

    # ---- reference B + generated schedules
    for si, s in enumerate(desc.get("schedules", [])):
        try:
            oFile, oRules, cla = S.build(schedule_cfg(s))
        except SystemExit as e:
            out["schedules"].append({"error": "config-rejected", "detail": str(e.code)})
            continue
        except Exception as e:
            out["schedules"].append({"error": "build-failed", "detail": type(e).__name__ + ": " + str(e)[:200]})
            continue
        order_rules(oRules, s)
        meta = {U(r): (int(r.phase), int(r.subphase), bool(r.disable), r.severity.type) for r in oRules.rules if int(r.phase) != 0}
        ran = []
        instrument(oRules, ran)
        T0, L0 = text_of(oFile), light_of(oFile)
        passes = []
        for p in s.get("passes", [{"all": True, "skip": []}]):
            del ran[:]
            oRules.clear_violations()
            try:
                oRules.check_rules(bAllPhases=bool(p.get("all", True)), lSkipPhase=list(p.get("skip", [])))
                err = None
            except Exception as e:
                err = type(e).__name__ + ": " + str(e)[:200]
            V = {}
            for r in oRules.rules:
                v = vio(r)
                if v:
                    V[U(r)] = v
            rep_json = rep_syn = None
            if err is None:
                # what the user-visible reports contain, next to the per-rule violation lists
                try:
                    rep_json = sorted((str(d["rule"]), str(d["linenumber"]), str(d["solution"])) for d in oRules.extract_violation_dictionary()["violations"])
                    so, se = oRules.report_violations("syntastic")
                    rep_syn = []
                    for ln in ((so or "") + "\n" + (se or "")).splitlines():
                        m = re.match(r"^\w+: .*?\((\d+)\)(\w+_\d+) -- ", ln)
                        if m:  # (a solution text may itself contain a line break: rule and line only)
                            rep_syn.append((m.group(2), m.group(1)))
                    rep_syn.sort()
                except Exception as e:
                    err = "report: " + type(e).__name__ + ": " + str(e)[:120]
            rep_o, rep_e = None, None
            if err is None and s.get("report"):
                try:
                    rep_o, rep_e = oRules.report_violations("vsg")
                except Exception as e:
                    err = "report: " + type(e).__name__
            passes.append({"ran": list(ran), "V": V, "text_ok": text_of(oFile) == T0, "class_ok": light_of(oFile) == L0, "err": err, "report": md5((rep_o or "") + "\0" + (rep_e or "")) if s.get("report") else None, "rep_json": rep_json, "rep_syn": rep_syn})
        out["schedules"].append({"meta": meta, "passes": passes})

    # ---- localisation request: which earlier analyses change `reader`'s report?
    loc = desc.get("localize")
    if loc:
        out["localize"] = localize(S, loc)
    rec.emit("api-result", out)
    rec.emit("end", {"exit": 0, "exc": None, "trace": [], "mismatch": 0, "policy": None, "fired": [], "skipped": [], "unsimulated": [], "updates": None, "lines": None, "probes": {}})


def _run_group(S, phase, sub, order):
    """Fresh objects, canonical predecessors of (phase, sub), then the group's rules in `order`."""
    oFile, oRules, _ = S.build()
    rules = real_rules(oRules)
    preds = [r for r in rules if int(r.phase) == phase and int(r.subphase) < sub and not r.disable]
    preds.sort(key=lambda r: int(r.subphase))  # stable: rule-list order inside a sub-phase

    def prime(oF, prs):
        for r in prs:
            r.violations = []
            try:
                r.analyze(oF)
            except Exception:
                pass
            r.violations = []

    prime(oFile, preds)
    snap, msnap = shallow_items(oFile), map_snapshot(oFile)
    group = [r for r in rules if int(r.phase) == phase and int(r.subphase) == sub]
    group.sort(key=lambda r: U(r), reverse=(order == "rev"))
    res = {}
    for r in group:
        was = r.disable
        r.disable = False
        r.violations = []
        try:
            r.analyze(oFile)
            res[U(r)] = vio(r)
        except Exception:
            res[U(r)] = None
        r.violations = []
        r.disable = was
        if map_dirty(oFile, msnap) or is_dirty(oFile, snap):
            oFile, oRules2, _ = S.build()
            byid = {U(x): x for x in oRules2.rules}
            prime(oFile, [byid[U(p)] for p in preds if U(p) in byid])
            snap, msnap = shallow_items(oFile), map_snapshot(oFile)
    return res, [U(p) for p in preds]


def dependent_reference(S):
    oFile, oRules, _ = S.build()
    subs = {}
    for r in real_rules(oRules):
        subs.setdefault(int(r.phase), set()).add(int(r.subphase))
    dep, dpreds, suspects = {}, {}, []
    for phase in sorted(subs):
        ss = sorted(subs[phase])
        for sub in ss[1:]:
            fwd, preds = _run_group(S, phase, sub, "fwd")
            rev, _ = _run_group(S, phase, sub, "rev")
            for u, v in fwd.items():
                dpreds[u] = preds
                if rev.get(u, v) != v:
                    suspects.append(u)
                    # its own fresh objects: predecessors, then this rule only
                    oF, oR, _ = S.build()
                    byid = {U(x): x for x in oR.rules}
                    for pu in preds:
                        pr = byid.get(pu)
                        if pr is not None:
                            pr.violations = []
                            try:
                                pr.analyze(oF)
                            except Exception:
                                pass
                            pr.violations = []
                    r = byid[u]
                    r.disable = False
                    r.violations = []
                    try:
                        r.analyze(oF)
                        v = vio(r)
                    except Exception:
                        v = None
                dep[u] = v
    return dep, dpreds, suspects


def localize(S, loc):
    """ddmin over the rules analysed before `reader` in a failing pass: smallest sequence W such
    that analysing W, then reader, on a fresh file gives a report different from `want`."""
    reader, before, want = loc["reader"], list(loc["before"]), [tuple(x) for x in loc["want"]]
    cfg = schedule_cfg(loc.get("schedule") or {})
    tests = [0]

    def differs(W):
        tests[0] += 1
        oFile, oRules, _ = S.build(cfg)
        byid = {U(r): r for r in oRules.rules}
        for u in list(loc.get("preds") or []) + W + [reader]:
            r = byid.get(u)
            if r is None:
                continue
            r.violations = []
            try:
                r.analyze(oFile)
            except Exception:
                return False
        return [tuple(x) for x in vio(byid[reader])] != want

    if differs([]):
        return {"writers": [], "tests": tests[0], "note": "differs without any predecessor: the configuration of other rules alone changes the report"}
    if not differs(before):
        return {"writers": None, "tests": tests[0], "note": "not reproducible from the order alone"}
    W = before
    n = 2
    while len(W) >= 2 and tests[0] < 200:
        chunk = max(1, len(W) // n)
        subsets = [W[i : i + chunk] for i in range(0, len(W), chunk)]
        reduced = False
        for sub in subsets:
            if differs(sub):
                W, n, reduced = sub, 2, True
                break
        if not reduced:
            for i in range(len(subsets)):
                comp = [x for j, sub in enumerate(subsets) if j != i for x in sub]
                if comp and differs(comp):
                    W, n, reduced = comp, max(n - 1, 2), True
                    break
        if not reduced:
            if n >= len(W):
                break
            n = min(len(W), n * 2)
    return {"writers": W, "tests": tests[0]}


class _QuietCtl:
    """The api engine does no I/O that matters; operations on the sandbox are simply allowed."""

    def before(self, kind, rel, extra):
        return None

    def after(self, kind, rel, errname, performed):
        pass

    def dying(self):
        pass

    def out(self, tag, text):
        pass
