"""Asynchronous interrupt at line granularity: a sys.settrace tracer restricted to the code
objects of vsg/apply_rules.py's write-back functions raises KeyboardInterrupt at the k-th line
event (Ctrl-C landing between any two lines of write_vhdl_file / create_backup_file)."""
import sys

FUNCS = ("write_vhdl_file", "create_backup_file")


class Tracer:
    def __init__(self, k, ctl):
        self.k, self.ctl, self.count, self.fired = k, ctl, 0, False

    def glob(self, frame, event, arg):
        co = frame.f_code
        if co.co_name in FUNCS and co.co_filename.replace("\\", "/").endswith("vsg/apply_rules.py"):
            return self.local
        return None

    @staticmethod
    def in_cleanup(frame):
        """Is the line inside the function's (last) finally block?  An interrupt that lands in the
        clean-up code itself is a fault of the clean-up, like an error injected into os.remove."""
        import inspect

        try:
            lines, first = inspect.getsourcelines(frame.f_code)
        except (OSError, TypeError):
            return False
        fin = None
        for i, ln in enumerate(lines):
            if ln.strip().startswith("finally"):
                fin = first + i
        return fin is not None and frame.f_lineno > fin

    def local(self, frame, event, arg):
        if event == "line":
            self.count += 1
            if self.count == self.k and not self.fired:
                self.fired = True
                self.ctl.out("sim", "interrupt-line %d %s:%d cleanup=%d\n" % (self.k, frame.f_code.co_name, frame.f_lineno, int(self.in_cleanup(frame))))
                raise KeyboardInterrupt()
        return self.local


def install(k, ctl):
    t = Tracer(k, ctl)
    sys.settrace(t.glob)
    return t
