"""Parent side: the warm interpreter that forks one simulated vsg process per run descriptor,
collects its streamed history, inspects the sandbox it leaves behind and returns a result dict.

The warm parent never executes vsg code after importing it, so a run is a function of
(tree, descriptor) only.
"""
import base64
import os
import select
import shutil
import signal
import stat as _stat
import struct
import sys
import pickle
import tempfile
import time
import warnings

from vsim import seams, wire

REPO = os.environ.get("VERIF_REPO", "/repo")
_WARM = False
RULES = []  # (unique_id, phase, subphase, disabled by default, fixable, severity) of every rule of the tree
RUN_TIMEOUT = float(os.environ.get("VERIF_RUN_TIMEOUT", "120"))


def warm():
    """Install the seams, then import vsg and every rule module once."""
    global _WARM
    if _WARM:
        return
    seams.install()
    if REPO not in sys.path:
        sys.path.insert(0, REPO)
    sys.dont_write_bytecode = True
    warnings.filterwarnings("ignore", category=SyntaxWarning)
    import vsg.apply_rules  # noqa
    from vsim import child

    child.install_task_wrapper()
    child.install_lossless_monitor()
    import vsg.__main__  # noqa
    import vsg.rule_list

    global RULES
    RULES = []
    for r in vsg.rule_list.load_rules():
        try:
            RULES.append(
                (
                    r.unique_id,
                    int(r.phase),
                    int(r.subphase),
                    bool(r.disable),
                    bool(r.fixable),
                    getattr(getattr(r, "severity", None), "name", None),
                    tuple(str(x) for x in getattr(r, "configuration", []) or []),
                    tuple(c.__name__ for c in type(r).__mro__[1:] if c.__module__.startswith("vsg.rules") and not c.__name__.startswith("rule_")),
                    tuple(str(g) for g in getattr(r, "groups", []) or []),
                )
            )
        except Exception:
            pass
    RULES.sort()
    import vsg

    where = os.path.dirname(os.path.abspath(vsg.__file__))
    want = os.path.join(os.path.abspath(REPO), "vsg")
    if where != want:
        raise RuntimeError("vsg imported from %s, expected %s" % (where, want))
    _WARM = True


def shm_base():
    for d in ("/dev/shm", tempfile.gettempdir()):
        if os.path.isdir(d) and os.access(d, os.W_OK):
            return d
    return tempfile.gettempdir()


class Executor:
    """Executes run descriptors by forking the warm parent."""

    def __init__(self):
        warm()
        self.base = tempfile.mkdtemp(dir=shm_base(), prefix="vsim-%d-" % os.getpid())
        self.n = 0
        self.hashseed = os.environ.get("PYTHONHASHSEED", "random")

    def close(self):
        shutil.rmtree(self.base, ignore_errors=True)

    # -- sandbox
    def _populate(self, root, desc):
        os.makedirs(root)
        for d in desc.get("dirs", []):
            os.makedirs(os.path.join(root, d), exist_ok=True)
        for f in desc["sandbox"]:
            p = os.path.join(root, f["path"])
            os.makedirs(os.path.dirname(p), exist_ok=True)
            with open(p, "wb") as fh:
                fh.write(base64.b64decode(f["b64"]))
            os.chmod(p, int(f.get("mode", "644"), 8))
        for f in desc["sandbox"]:
            if f.get("mtime_ns") is not None:
                p = os.path.join(root, f["path"])
                os.utime(p, ns=(int(f["mtime_ns"]), int(f["mtime_ns"])))

    @staticmethod
    def snapshot(root):
        out = {}
        for dp, dn, fn in os.walk(root):
            for f in fn:
                p = os.path.join(dp, f)
                try:
                    st = os.lstat(p)
                    if _stat.S_ISLNK(st.st_mode):
                        out[os.path.relpath(p, root)] = {"h": "symlink", "mode": 0, "ino": st.st_ino, "mtime": st.st_mtime_ns, "size": 0}
                        continue
                    with open(p, "rb") as fh:
                        data = fh.read()
                    out[os.path.relpath(p, root)] = {
                        "h": wire.digest(data),
                        "mode": _stat.S_IMODE(st.st_mode),
                        "ino": st.st_ino,
                        "mtime": st.st_mtime_ns,
                        "size": len(data),
                    }
                except OSError:
                    pass
        return out

    def run(self, desc, keep_files=(), timeout=None):
        """Returns the result dict.  keep_files: relative paths whose final bytes are returned."""
        timeout = timeout or RUN_TIMEOUT
        self.n += 1
        root = os.path.join(self.base, "r%d" % self.n)
        self._populate(root, desc)
        before = self.snapshot(root)
        r, w = os.pipe()
        sys.stdout.flush()
        sys.stderr.flush()
        pid = os.fork()
        if pid == 0:
            try:
                os.close(r)
                from vsim import child

                child.child_main(desc, root, w)
            finally:
                os._exit(96)
        os.close(w)
        records = []
        buf = bytearray()
        deadline = time.monotonic() + timeout
        timed_out = False
        while True:
            left = deadline - time.monotonic()
            if left <= 0:
                timed_out = True
                break
            rl, _, _ = select.select([r], [], [], min(left, 5.0))
            if not rl:
                continue
            chunk = os.read(r, 1 << 20)
            if not chunk:
                break
            buf += chunk
        if timed_out:
            try:
                os.killpg(pid, signal.SIGKILL)
            except (ProcessLookupError, PermissionError):
                try:
                    os.kill(pid, signal.SIGKILL)
                except ProcessLookupError:
                    pass
        os.close(r)
        _, status = os.waitpid(pid, 0)
        # make sure no orphan of the run survives (workers are in the child's session)
        try:
            os.killpg(pid, signal.SIGKILL)
        except (ProcessLookupError, PermissionError):
            pass
        pos = 0
        while pos + 4 <= len(buf):
            n = struct.unpack_from("<I", buf, pos)[0]
            if pos + 4 + n > len(buf):
                break
            records.append(pickle.loads(bytes(buf[pos + 4 : pos + 4 + n])))
            pos += 4 + n
        after = self.snapshot(root)
        kept = {}
        for k in keep_files:
            p = os.path.join(root, k)
            try:
                with open(p, "rb") as fh:
                    kept[k] = fh.read()
            except OSError:
                kept[k] = None
        shutil.rmtree(root, ignore_errors=True)
        end = None
        harness = None
        for rec in records:
            if rec[0] == "end":
                end = rec[1]
            elif rec[0] == "harness-error":
                harness = rec[1]
        code = os.waitstatus_to_exitcode(status)
        if timed_out:
            st = "timeout"
        elif harness is not None or code in (96, 97):
            st = "harness-error"
        elif end is not None:
            st = "exc" if end["exc"] else "exit"
        elif code == seams.CRASH_EXIT:
            st = "crash"
        elif code == 99:
            st = "syskill"
        elif code == 98:
            st = "hang"
        else:
            st = "died:%s" % code
        return {
            "status": st,
            "end": end,
            "harness": harness,
            "records": records,
            "before": before,
            "after": after,
            "kept": kept,
            "hashseed": self.hashseed,
        }


# ---------------------------------------------------------------------------------------------
# views over a result


def stream_of(res, tags=("o", "e")):
    """Concatenated output per tag, plus the single tagged stream."""
    per = {t: [] for t in tags}
    tagged = []
    for rec in res["records"]:
        if rec[0] == "out" and rec[2] in per:
            per[rec[2]].append(rec[3])
            if tagged and tagged[-1][0] == rec[2]:
                tagged[-1][1] += rec[3]
            else:
                tagged.append([rec[2], rec[3]])
    return {t: "".join(v) for t, v in per.items()}, tagged


def ops_of(res):
    """List of operation events: dict(proc, task, n, kind, path, extra, fault, err, performed, delta)."""
    ops = []
    open_ = {}
    for rec in res["records"]:
        if rec[0] == "op":
            _, proc, task, n, kind, path, extra, fault = rec
            d = dict(proc=proc, task=task, n=n, kind=kind, path=path, extra=extra, fault=fault, err=None, performed=None, delta=None)
            ops.append(d)
            open_[proc] = d
        elif rec[0] == "done":
            _, proc, task, n, kind, path, err, performed, delta = rec
            d = open_.get(proc)
            if d is not None:
                d["err"], d["performed"], d["delta"] = err, performed, delta
    return ops


def boundaries(res):
    """Yields (label, cumulative state dict {rel: (digest, mode)}) after every record that carries
    a state delta: the state a kill at that instant leaves behind."""
    state = {k: (v["h"], v["mode"]) for k, v in res["before"].items()}
    last_op = None
    for rec in res["records"]:
        k = rec[0]
        delta = None
        if k == "op":
            last_op = rec
        elif k == "done":
            delta = rec[8]
            label = ("after", rec[1], rec[2], rec[3], rec[4], rec[5], rec[6])
        elif k == "crash":
            delta = rec[2]
            label = ("crash", rec[1]) + (tuple(last_op[1:6]) if last_op else ())
        elif k == "wdead":
            delta = rec[3]
            label = ("wdead", rec[1], rec[2])
        elif k == "task-done":
            delta = rec[3]
            label = ("task-done", rec[1], rec[2])
        elif k == "terminate":
            delta = rec[3]
            label = ("terminate", rec[1])
        if delta is None:
            continue
        for p, v in delta.items():
            if v is None:
                state.pop(p, None)
            else:
                state[p] = tuple(v)
        yield label, state


class RemoteExecutor:
    """A second warm interpreter started with another PYTHONHASHSEED; serves runs over pipes."""

    def __init__(self, hashseed):
        import subprocess

        env = dict(os.environ)
        env["PYTHONHASHSEED"] = str(hashseed)
        env.pop("VSIM_ALT_HASHSEED", None)
        here = os.path.dirname(os.path.abspath(__file__))
        self.p = subprocess.Popen([sys.executable, "-u", os.path.join(here, "shard_main.py"), "--executor"], stdin=subprocess.PIPE, stdout=subprocess.PIPE, env=env)
        self.hashseed = str(hashseed)

    def run(self, desc, keep_files=()):
        wire.send(self.p.stdin.fileno(), (desc, tuple(keep_files)))
        return wire.recv(self.p.stdout.fileno())

    def close(self):
        try:
            self.p.stdin.close()
            self.p.wait(timeout=10)
        except Exception:
            self.p.kill()
