"""Seams between VSG and the outside world.

install() replaces module attributes of the standard library (builtins.open, os.*, shutil.copy*,
glob.glob, os.listdir/scandir, multiprocessing.Pool, os.cpu_count, tempfile naming) *before* vsg is
imported.  Every shim is a pure pass-through unless a simulation context is active in this process
(CTX is set by vsim.child in the forked "simulated vsg process") AND the path lies under the
sandbox root of the run.  Nothing here draws from a PRNG or reads a clock on its own.
"""
import builtins
import glob as _glob
import io
import os
import random
import shutil
import stat as _stat
import sys
import tempfile

REAL = {}
CTX = None  # active simulation context of this process (None in the warm parent)

CRASH_EXIT = 137


class SimulatedCrash(BaseException):
    """Never raised into VSG: a crash is os._exit.  Only used as a marker type."""


class Ctx:
    """Per-process simulation context.  ctl decides/records; this class applies faults."""

    def __init__(self, root, ctl, cpu_count=2, dir_rng=None):
        self.root = os.path.abspath(root) + os.sep
        self.ctl = ctl
        self.depth = 0
        self.fds = {}  # fd -> path, for descriptors opened on sandbox paths via os.open/mkstemp
        self.cpu_count = cpu_count
        self.dir_rng = dir_rng
        self.dir_salt = dir_rng
        self.unsimulated = []  # names of concurrency primitives we saw but do not simulate

    # -- helpers
    def mine(self, path):
        try:
            p = os.fspath(path)
            if isinstance(p, bytes):
                p = os.fsdecode(p)
            p = os.path.abspath(p)
        except (TypeError, ValueError):
            return False
        return (p + os.sep).startswith(self.root)

    def rel(self, path):
        p = os.fspath(path)
        if isinstance(p, bytes):
            p = os.fsdecode(p)
        return os.path.abspath(p)[len(self.root):]

    def real(self):
        return _Depth(self)

    # -- the gate
    def before(self, kind, path, extra=None):
        """Announce an operation.  Applies crash / err / interrupt itself; returns a 'partial'
        fault (or None) for the caller to apply."""
        rel = path if kind == "glob" else self.rel(path)
        self.depth += 1
        try:
            fault = self.ctl.before(kind, rel, extra)
        finally:
            self.depth -= 1
        if fault is None:
            return None
        k = fault[0]
        if k == "crash":
            self.die()
        if k == "err":
            e = OSError(fault[1], os.strerror(fault[1]), os.fspath(path))
            self.after(kind, path, e, performed=False)
            raise e
        if k == "interrupt":
            self.after(kind, path, KeyboardInterrupt(), performed=False)
            raise KeyboardInterrupt()
        return fault

    def after(self, kind, path, exc=None, performed=True):
        rel = path if kind == "glob" else self.rel(path)
        self.depth += 1
        try:
            self.ctl.after(kind, rel, type(exc).__name__ if exc is not None else None, performed)
        finally:
            self.depth -= 1

    def die(self):
        """Simulated kill -9 of this process: no finally block runs, nothing more reaches the FS."""
        self.depth += 1
        try:
            self.ctl.dying()
        finally:
            os._exit(CRASH_EXIT)

    def call(self, kind, path, fn, *a, extra=None, **kw):
        """Generic gated call without partial semantics."""
        self.before(kind, path, extra)
        self.depth += 1
        try:
            r = fn(*a, **kw)
        except BaseException as e:
            self.depth -= 1
            self.after(kind, path, e)
            raise
        self.depth -= 1
        self.after(kind, path)
        return r


class _Depth:
    def __init__(self, c):
        self.c = c

    def __enter__(self):
        self.c.depth += 1

    def __exit__(self, *a):
        self.c.depth -= 1


def _active(path):
    c = CTX
    if c is None or c.depth or isinstance(path, int):
        return None
    if not c.mine(path):
        return None
    return c


# ---------------------------------------------------------------------------------------------
# file objects


class WriteProxy:
    """Wraps a real file object opened for writing; every write and the close are operations.
    Python's own buffering is left alone: data reaches the kernel when the real buffer fills, on
    flush and on close, exactly as in an unsimulated run - so the sandbox always shows what a kill
    at this instant would really leave (buffered bytes die with the process).  Only an injected
    partial write forces its prefix out before failing."""

    def __init__(self, ctx, f, path):
        self.__dict__["_c"] = ctx
        self.__dict__["_f"] = f
        self.__dict__["_p"] = path

    def write(self, data):
        c, f, p = self._c, self._f, self._p
        if c.depth:
            return f.write(data)
        # an unbuffered binary handle hands the data to the kernel in one write(2), which may
        # legally accept fewer bytes and say so in its return value ("short" fault); the buffered
        # layers of io retry that themselves, so the fault only exists for raw handles
        kind = "write-raw" if isinstance(f, io.RawIOBase) else "write"
        fault = c.before(kind, p, len(data))
        if fault is not None and fault[0] == "short":
            n = max(0, min(int(fault[1]), len(data)))
            with c.real():
                r = f.write(data[:n]) if n else 0
            c.after(kind, p)
            return r
        if fault is not None and fault[0] == "partial":
            n = max(0, min(int(fault[1]), len(data)))
            with c.real():
                f.write(data[:n])
                f.flush()
            then = fault[2]
            if then == "crash":
                c.die()
            e = OSError(then, os.strerror(then), p)
            c.after(kind, p, e)
            raise e
        try:
            with c.real():
                r = f.write(data)
        except BaseException as e:
            c.after(kind, p, e)
            raise
        c.after(kind, p)
        return r

    def flush(self):
        c, f, p = self._c, self._f, self._p
        if c.depth or f.closed:
            return f.flush()
        c.before("flush", p)
        try:
            with c.real():
                f.flush()
        except BaseException as e:
            c.after("flush", p, e)
            raise
        c.after("flush", p)

    def writelines(self, lines):
        for s in lines:
            self.write(s)

    def close(self):
        c, f, p = self._c, self._f, self._p
        if f.closed:
            return
        if c.depth:
            return f.close()
        try:
            c.before("close", p)
        except OSError:
            # a failing close still releases the descriptor
            with c.real():
                try:
                    f.close()
                except OSError:
                    pass
            raise
        try:
            with c.real():
                f.close()
        except BaseException as e:
            c.after("close", p, e)
            raise
        c.after("close", p)

    def __enter__(self):
        return self

    def __exit__(self, *a):
        self.close()

    def __iter__(self):
        return iter(self._f)

    def __getattr__(self, k):
        return getattr(self._f, k)

    def __setattr__(self, k, v):
        setattr(self._f, k, v)

    def __del__(self):
        try:
            f = self.__dict__.get("_f")
            if f is not None and not f.closed:
                f.close()
        except Exception:
            pass


class ReadProxy:
    """Wraps a real file object opened for reading; the first data access is one 'read' operation
    (so an I/O error can be injected in the middle of reading a source file)."""

    def __init__(self, ctx, f, path):
        self.__dict__["_c"] = ctx
        self.__dict__["_f"] = f
        self.__dict__["_p"] = path
        self.__dict__["_gated"] = False

    def _g(self):
        if not self._gated and not self._c.depth:
            self.__dict__["_gated"] = True
            self._c.before("read", self._p)
            self._c.after("read", self._p)

    def read(self, *a):
        self._g()
        return self._f.read(*a)

    def readline(self, *a):
        self._g()
        return self._f.readline(*a)

    def readlines(self, *a):
        self._g()
        return self._f.readlines(*a)

    def __iter__(self):
        self._g()
        return iter(self._f)

    def __next__(self):
        self._g()
        return next(self._f)

    def __enter__(self):
        return self

    def __exit__(self, *a):
        self._f.close()

    def __getattr__(self, k):
        return getattr(self._f, k)


class _ScandirResult:
    def __init__(self, entries):
        self._e = list(entries)
        self._i = iter(self._e)

    def __iter__(self):
        return self

    def __next__(self):
        return next(self._i)

    def close(self):
        pass

    def __enter__(self):
        return self

    def __exit__(self, *a):
        pass


class DetNames:
    """Deterministic replacement for tempfile._RandomNameSequence (one per simulated process)."""

    characters = "abcdefghijklmnopqrstuvwxyz0123456789_"

    def __init__(self, seed):
        self.rng = random.Random(seed)

    def __iter__(self):
        return self

    def __next__(self):
        return "".join(self.rng.choices(self.characters, k=8))


# ---------------------------------------------------------------------------------------------


def _wants_write(mode):
    return any(ch in mode for ch in "wax+")


def install():
    """Idempotent.  Must run before vsg is imported."""
    if REAL:
        return
    import multiprocessing
    import multiprocessing.context
    import multiprocessing.pool

    R = REAL
    R.update(
        open=builtins.open,
        stat=os.stat,
        lstat=os.lstat,
        chmod=os.chmod,
        replace=os.replace,
        rename=os.rename,
        remove=os.remove,
        unlink=os.unlink,
        utime=os.utime,
        truncate=os.truncate,
        os_open=os.open,
        os_write=os.write,
        os_close=os.close,
        fsync=os.fsync,
        fchmod=os.fchmod,
        link=os.link,
        symlink=os.symlink,
        mkdir=os.mkdir,
        rmdir=os.rmdir,
        copy2=shutil.copy2,
        copy=shutil.copy,
        copyfile=shutil.copyfile,
        copystat=shutil.copystat,
        copymode=shutil.copymode,
        glob=_glob.glob,
        listdir=os.listdir,
        scandir=os.scandir,
        cpu_count=os.cpu_count,
        mp_cpu_count=multiprocessing.cpu_count,
        Pool=multiprocessing.Pool,
        ctxPool=multiprocessing.context.BaseContext.Pool,
        walk=os.walk,
    )

    # ---- open
    def s_open(file, mode="r", *a, **kw):
        c = CTX
        if c is None or c.depth:
            return R["open"](file, mode, *a, **kw)
        if isinstance(file, int):
            p = c.fds.get(file)
            if p is None:
                return R["open"](file, mode, *a, **kw)
            f = R["open"](file, mode, *a, **kw)
            if kw.get("closefd", True):
                c.fds.pop(file, None)
            return WriteProxy(c, f, p) if _wants_write(mode) else f
        if not c.mine(file):
            return R["open"](file, mode, *a, **kw)
        wr = _wants_write(mode)
        kind = "open-w" if wr else "open-r"
        c.before(kind, file, mode)
        try:
            with c.real():
                f = R["open"](file, mode, *a, **kw)
        except BaseException as e:
            c.after(kind, file, e)
            raise
        c.after(kind, file)
        p = os.fspath(file)
        return WriteProxy(c, f, p) if wr else ReadProxy(c, f, p)

    builtins.open = s_open
    io.open = s_open

    # ---- simple one-path calls
    def wrap1(name, kind, attr=None):
        real = R[name]

        def f(path, *a, **kw):
            c = _active(path)
            if c is None:
                return real(path, *a, **kw)
            return c.call(kind, path, real, path, *a, extra=(repr(a[0]) if a else None), **kw)

        f.__name__ = attr or name
        return f

    os.stat = wrap1("stat", "stat")
    os.lstat = wrap1("lstat", "stat")
    os.chmod = wrap1("chmod", "chmod")
    os.remove = wrap1("remove", "remove")
    os.unlink = wrap1("unlink", "remove")
    os.utime = wrap1("utime", "utime")
    os.truncate = wrap1("truncate", "truncate")
    os.mkdir = wrap1("mkdir", "mkdir")
    os.rmdir = wrap1("rmdir", "rmdir")

    # ---- two-path calls
    def wrap2(name, kind):
        real = R[name]

        def f(src, dst, *a, **kw):
            c = CTX
            if c is None or c.depth or isinstance(src, int) or isinstance(dst, int) or not (c.mine(src) or c.mine(dst)):
                return real(src, dst, *a, **kw)
            target = dst if c.mine(dst) else src
            return c.call(kind, target, real, src, dst, *a, extra=c.rel(src) if c.mine(src) else os.fspath(src), **kw)

        f.__name__ = name
        return f

    os.replace = wrap2("replace", "replace")
    os.rename = wrap2("rename", "replace")
    os.link = wrap2("link", "link")
    os.symlink = wrap2("symlink", "link")

    # ---- descriptor level
    def s_os_open(path, flags, mode=0o777, *a, **kw):
        c = _active(path)
        if c is None:
            return R["os_open"](path, flags, mode, *a, **kw)
        wr = bool(flags & (os.O_WRONLY | os.O_RDWR | os.O_CREAT | os.O_TRUNC | os.O_APPEND))
        kind = "open-w" if wr else "open-r"
        fd = c.call(kind, path, R["os_open"], path, flags, mode, *a, extra="fd", **kw)
        if wr:
            c.fds[fd] = os.fspath(path)
        return fd

    def s_os_write(fd, data):
        c = CTX
        if c is None or c.depth or fd not in c.fds:
            return R["os_write"](fd, data)
        p = c.fds[fd]
        fault = c.before("write-raw", p, len(data))
        if fault is not None and fault[0] == "short":
            n = max(0, min(int(fault[1]), len(data)))
            with c.real():
                r = R["os_write"](fd, data[:n]) if n else 0
            c.after("write-raw", p)
            return r
        if fault is not None and fault[0] == "partial":
            n = max(0, min(int(fault[1]), len(data)))
            with c.real():
                if n:
                    R["os_write"](fd, data[:n])
            if fault[2] == "crash":
                c.die()
            e = OSError(fault[2], os.strerror(fault[2]), p)
            c.after("write-raw", p, e)
            raise e
        try:
            with c.real():
                r = R["os_write"](fd, data)
        except BaseException as e:
            c.after("write-raw", p, e)
            raise
        c.after("write-raw", p)
        return r

    def s_os_close(fd):
        c = CTX
        if c is None or c.depth or fd not in c.fds:
            return R["os_close"](fd)
        p = c.fds.pop(fd)
        try:
            c.before("close", p)
        except OSError:
            R["os_close"](fd)
            raise
        return_value = None
        try:
            with c.real():
                return_value = R["os_close"](fd)
        except BaseException as e:
            c.after("close", p, e)
            raise
        c.after("close", p)
        return return_value

    def s_fsync(fd):
        c = CTX
        if c is None or c.depth or not isinstance(fd, int) or fd not in c.fds:
            return R["fsync"](fd)
        return c.call("fsync", c.fds[fd], R["fsync"], fd)

    def s_fchmod(fd, mode):
        c = CTX
        if c is None or c.depth or fd not in c.fds:
            return R["fchmod"](fd, mode)
        return c.call("chmod", c.fds[fd], R["fchmod"], fd, mode, extra=repr(mode))

    os.open = s_os_open
    os.write = s_os_write
    os.close = s_os_close
    os.fsync = s_fsync
    os.fchmod = s_fchmod

    # ---- advisory file locks: a blocking flock/lockf would park a simulated process inside the
    # kernel, where the scheduler cannot see it (every other process is parked too: deadlock).  A
    # blocking request becomes a loop of scheduling points ("lock-wait") around the non-blocking
    # call, so who gets the lock next is the Decider's choice like everything else.
    try:
        import fcntl as _fcntl
    except ImportError:  # pragma: no cover
        _fcntl = None
    if _fcntl is not None and "flock" not in R:
        R["flock"] = _fcntl.flock
        R["lockf"] = _fcntl.lockf

        def _lock(name, fd, op, *a):
            c = CTX
            real = R[name]
            if c is None or c.depth:
                return real(fd, op, *a)
            n = fd if isinstance(fd, int) else fd.fileno()
            p = c.fds.get(n) or os.path.join(c.root, "fd-%d" % n)
            if op & (_fcntl.LOCK_UN | _fcntl.LOCK_NB):
                return c.call("unlock" if op & _fcntl.LOCK_UN else "lock-try", p, real, fd, op, *a)
            for _ in range(4000):
                c.before("lock-wait", p)
                try:
                    with c.real():
                        real(fd, op | _fcntl.LOCK_NB, *a)
                except (BlockingIOError, PermissionError) as e:
                    c.after("lock-wait", p, e, performed=False)
                    continue
                except BaseException as e:
                    c.after("lock-wait", p, e)
                    raise
                c.after("lock-wait", p)
                return None
            return real(fd, op, *a)  # never obtained: let the watchdog report the hang

        _fcntl.flock = lambda fd, op: _lock("flock", fd, op)
        _fcntl.lockf = lambda fd, op, *a: _lock("lockf", fd, op, *a)

    # ---- shutil copies, decomposed: open destination / copy data (may be partial) / metadata
    def make_copy(name, meta):
        real = R[name]

        def f(src, dst, *a, **kw):
            c = CTX
            if c is None or c.depth or not (c.mine(src) or c.mine(dst)):
                return real(src, dst, *a, **kw)
            if os.path.isdir(dst):
                dst = os.path.join(dst, os.path.basename(src))
            c.before("copy-open", dst, c.rel(src) if c.mine(src) else os.fspath(src))
            try:
                with c.real():
                    with R["open"](src, "rb") as fs:
                        data = fs.read()
                    fd = R["open"](dst, "wb")
            except BaseException as e:
                c.after("copy-open", dst, e)
                raise
            c.after("copy-open", dst)
            try:
                fault = c.before("copy-data", dst, len(data))
            except BaseException:
                fd.close()
                raise
            if fault is not None and fault[0] == "partial":
                n = max(0, min(int(fault[1]), len(data)))
                with c.real():
                    fd.write(data[:n])
                    fd.close()
                if fault[2] == "crash":
                    c.die()
                e = OSError(fault[2], os.strerror(fault[2]), os.fspath(dst))
                c.after("copy-data", dst, e)
                raise e
            with c.real():
                fd.write(data)
                fd.close()
            c.after("copy-data", dst)
            if meta:
                c.before("copy-stat", dst)
                try:
                    with c.real():
                        R[meta](src, dst)
                except BaseException as e:
                    c.after("copy-stat", dst, e)
                    raise
                c.after("copy-stat", dst)
            return dst

        f.__name__ = name
        return f

    shutil.copy2 = make_copy("copy2", "copystat")
    shutil.copy = make_copy("copy", "copymode")
    shutil.copyfile = make_copy("copyfile", None)

    # ---- directory order
    def _permute(c, items, where=""):
        # POSIX promises no order, but an unchanged directory answers the same way every time: the
        # permutation is a function of (run's directory salt, directory or pattern, listing), the
        # same for every call and every process of the run
        items = sorted(items, key=lambda x: os.fspath(x) if not hasattr(x, "name") else x.name)
        if c.dir_salt is not None and len(items) > 1:
            import hashlib

            names = [os.fspath(x) if not hasattr(x, "name") else x.name for x in items]
            seed = int.from_bytes(hashlib.sha256(repr((c.dir_salt, str(where), names)).encode()).digest()[:8], "big")
            random.Random(seed).shuffle(items)
        return items

    def s_glob(pathname, *a, **kw):
        c = CTX
        if c is None or c.depth:
            return R["glob"](pathname, *a, **kw)
        with c.real():
            r = R["glob"](pathname, *a, **kw)
        if len(r) > 1 and all(c.mine(x) for x in r):
            r = _permute(c, r, os.fspath(pathname))
            c.before("glob", os.fspath(pathname), list(r))
            c.after("glob", os.fspath(pathname))
        return r

    def s_listdir(path="."):
        c = _active(path)
        if c is None:
            return R["listdir"](path)
        with c.real():
            r = R["listdir"](path)
        return _permute(c, r, c.rel(path))

    def s_scandir(path="."):
        c = _active(path)
        if c is None:
            return R["scandir"](path)
        with c.real():
            with R["scandir"](path) as it:
                r = list(it)
        return _ScandirResult(_permute(c, r, c.rel(path)))

    _glob.glob = s_glob
    os.listdir = s_listdir
    os.scandir = s_scandir

    # ---- machine size
    def s_cpu_count():
        c = CTX
        return R["cpu_count"]() if c is None else c.cpu_count

    os.cpu_count = s_cpu_count
    multiprocessing.cpu_count = s_cpu_count

    # ---- process pool
    def s_pool(*a, **kw):
        c = CTX
        if c is None:
            return R["Pool"](*a, **kw)
        from vsim import simpool

        return simpool.SimPool(*a, **kw)

    def s_ctx_pool(self, *a, **kw):
        c = CTX
        if c is None:
            return R["ctxPool"](self, *a, **kw)
        from vsim import simpool

        return simpool.SimPool(*a, **kw)

    multiprocessing.Pool = s_pool
    multiprocessing.context.BaseContext.Pool = s_ctx_pool

    R_pool_cls = multiprocessing.pool.Pool
    REAL["pool_cls"] = R_pool_cls

    def pool_new(cls, *a, **kw):
        # catches every construction style (multiprocessing.Pool, get_context().Pool,
        # multiprocessing.pool.Pool): a SimPool is not an instance of Pool, so __init__ is skipped
        c = CTX
        if c is not None and cls is R_pool_cls:
            from vsim import simpool

            kw.pop("context", None)
            return simpool.SimPool(*a, **kw)
        return object.__new__(cls)

    R_pool_cls.__new__ = pool_new
    # multiprocessing.pool.Pool stays a class (ThreadPool subclasses it); only flag thread pools
    _tp_init = multiprocessing.pool.ThreadPool.__init__

    def tp_init(self, *a, **kw):
        c = CTX
        if c is not None:
            c.unsimulated.append("ThreadPool")
        return _tp_init(self, *a, **kw)

    multiprocessing.pool.ThreadPool.__init__ = tp_init
    try:
        import concurrent.futures as cf

        for nm in ("ProcessPoolExecutor", "ThreadPoolExecutor"):
            cls = getattr(cf, nm)
            orig = cls.__init__

            def mk(orig, nm):
                def init(self, *a, **kw):
                    c = CTX
                    if c is not None:
                        c.unsimulated.append(nm)
                    return orig(self, *a, **kw)

                return init

            cls.__init__ = mk(orig, nm)
    except Exception:  # pragma: no cover
        pass


def activate(ctx, name_seed):
    """Called in the forked simulated process."""
    global CTX
    CTX = ctx
    tempfile._name_sequence = DetNames(name_seed)


def deactivate():
    global CTX
    CTX = None
