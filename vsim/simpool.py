"""SimPool: stands in for multiprocessing.Pool inside a simulated vsg process.

Workers are real forked processes (module state per worker, pickled tasks and results, kill
semantics are all the real thing); the *choice* of who runs is simulated: exactly one process runs
at any instant, all others are parked at an intercepted I/O operation or idle, and every dispatch,
I/O step, delivery and kill is taken from the run's Decider.  See DESIGN.md section 3.4.
"""
import os
import pickle
import random
import signal
import sys

from vsim import child as _child
from vsim import seams, wire
from vsim.decider import H

SIM = None  # SimState of the current simulated process (set by child.run_cli)

STEP_CAP = 5000


class SimState:
    def __init__(self, desc, rec, snap, plan, decider, root):
        self.desc, self.rec, self.snap, self.plan, self.decider, self.root = desc, rec, snap, plan, decider, root
        self.steps = 0
        self.probes = {}
        self.pools = 0

    def probe(self, name, n=1):
        self.probes[name] = self.probes.get(name, 0) + n


class _KI(KeyboardInterrupt):
    pass


class _Job:
    def __init__(self, jid, n, ordered):
        self.jid, self.n, self.ordered = jid, n, ordered
        self.results = {}
        self.delivered = []


class AsyncResult:
    def __init__(self, pool, job, single, callback=None, error_callback=None):
        self._pool, self._job, self._single = pool, job, single
        self._cb, self._ecb = callback, error_callback

    def ready(self):
        return len(self._job.results) == self._job.n

    def successful(self):
        if not self.ready():
            raise ValueError("not ready")
        return all(ok for ok, _ in self._job.results.values())

    def wait(self, timeout=None):
        self._pool._advance(lambda: [["deliver", self._job.jid, "all"]] if self.ready() else [])

    def get(self, timeout=None):
        self.wait()
        vals = []
        for i in range(self._job.n):
            ok, v = self._job.results[i]
            if not ok:
                if self._ecb:
                    self._ecb(v)
                raise v
            vals.append(v)
        r = vals[0] if self._single else vals
        if self._cb:
            self._cb(r)
        return r


class SimPool:
    def __init__(self, processes=None, initializer=None, initargs=(), maxtasksperchild=None, context=None):
        S = SIM
        if S is None:
            raise RuntimeError("SimPool outside a simulation")
        self.S = S
        if processes is None:
            processes = os.cpu_count() or 1
        if processes < 1:
            raise ValueError("Number of processes must be at least 1")
        self.nproc = processes
        self.w = []
        self.queue = []  # (job, idx, payload)
        self.jobs = []
        self.ntask = 0  # global task numbering, used to address faults
        self.closed = False
        self.terminated = False
        S.pools += 1
        S.rec.emit("sched", S.steps, ["pool", processes])
        for i in range(processes):
            c_r, c_w = os.pipe()
            e_r, e_w = os.pipe()
            pid = os.fork()
            if pid == 0:
                try:
                    seams.REAL["os_close"](c_w)
                    seams.REAL["os_close"](e_r)
                    for o in self.w:
                        seams.REAL["os_close"](o["tx"])
                        seams.REAL["os_close"](o["rx"])
                    try:
                        seams.REAL["os_close"](S.rec.fd)
                    except OSError:
                        pass
                    self._worker(i, c_r, e_w, initializer, initargs)
                finally:
                    os._exit(0)
            seams.REAL["os_close"](c_r)
            seams.REAL["os_close"](e_w)
            self.w.append(dict(pid=pid, tx=c_w, rx=e_r, state="idle", task=None, pend=None, ntasks=0, n=0, gtask=None))

    # ------------------------------------------------------------------ worker side
    def _worker(self, wid, rx, tx, initializer, initargs):
        S = self.S
        ctl = _child.WorkerCtl(wid, tx, rx)
        ctx = seams.Ctx(S.root, ctl, cpu_count=S.desc.get("cpu_count", 2), dir_rng=S.desc.get("dirsalt", 0))
        _child.prepare_process(S.desc, ctx, "w%d" % wid)
        global SIM
        SIM = None  # a worker has no scheduler of its own
        if initializer is not None:
            initializer(*initargs)
        while True:
            try:
                msg = wire.recv(rx)
            except EOFError:
                os._exit(0)
            if msg[0] == "exit":
                os._exit(0)
            func, args, kwds, star = pickle.loads(msg[1])
            try:
                try:
                    res = (True, func(*args, **kwds) if star else func(args))
                    info = None
                except Exception as e:
                    res = (False, e)
                    info = _child.excinfo(e)
            except BaseException as e:  # KeyboardInterrupt / SystemExit end a real worker too
                try:
                    wire.send(tx, ("died", _child.excinfo(e)))
                finally:
                    os._exit(1)
            try:
                payload = pickle.dumps(res)
            except Exception as e:
                payload = pickle.dumps((False, RuntimeError("Error sending result: %r" % (e,))))
            wire.send(tx, ("result", payload, info))

    # ------------------------------------------------------------------ scheduler side
    def _emit(self, *rec):
        self.S.rec.emit(*rec)

    def _pump(self, i):
        """Read worker i's messages until it parks on an operation, finishes its task or dies."""
        w = self.w[i]
        S = self.S
        while True:
            try:
                ev = wire.recv(w["rx"])
            except EOFError:
                if w["state"] != "dead":
                    w["state"] = "dead"
                    self._emit("wdead", i, w["gtask"], S.snap.delta())
                return
            k = ev[0]
            if k == "op":
                w["state"], w["pend"] = "parked", ev[1:]
                return
            if k == "done":
                self._emit("done", "w%d" % i, w["gtask"], w["n"], ev[1], ev[2], ev[3], ev[4], S.snap.delta())
            elif k == "out":
                self._emit("out", "w%d" % i, ev[1], ev[2])
            elif k == "mark":
                self._emit(ev[1], "w%d" % i, ev[2] if ev[2] is not None else w["gtask"], ev[3])
            elif k == "crash":
                self._emit("crash", "w%d" % i, S.snap.delta())
            elif k == "died":
                self._emit("wexc", i, w["gtask"], ev[1])
            elif k == "result":
                job, idx = w["task"]
                job.results[idx] = pickle.loads(ev[1])
                if ev[2] is not None:
                    self._emit("task-exc", i, w["gtask"], ev[2])
                self._emit("task-done", i, w["gtask"], S.snap.delta())
                w["state"], w["task"], w["pend"] = "idle", None, None
                return

    def _enabled(self):
        acts = []
        if self.queue:
            acts += [["dispatch", i] for i, w in enumerate(self.w) if w["state"] == "idle"]
        acts += [["step", i] for i, w in enumerate(self.w) if w["state"] == "parked"]
        return acts

    def _do(self, act, fault_override=None):
        S = self.S
        kind, i = act[0], act[1]
        w = self.w[i]
        if kind == "dispatch":
            job, idx, payload, g = self.queue.pop(0)
            w["task"], w["gtask"], w["n"] = (job, idx), g, 0
            w["ntasks"] += 1
            if w["ntasks"] == 2:
                S.probe("worker_ge2_tasks")
            if w["ntasks"] == 3:
                S.probe("worker_ge3_tasks")
            self._emit("dispatch", i, g)
            wire.send(w["tx"], ("task", payload))
            w["state"] = "running"
            self._pump(i)
        elif kind == "step":
            w["n"] += 1
            opk, rel, extra = w["pend"]
            fault = fault_override if fault_override is not None else S.plan.lookup(w["gtask"], w["n"], opk)
            self._emit("op", "w%d" % i, w["gtask"], w["n"], opk, rel, extra, fault)
            w["state"] = "running"
            wire.send(w["tx"], fault)
            self._pump(i)

    def _kill_all(self):
        for w in self.w:
            if w["state"] != "dead":
                try:
                    os.kill(w["pid"], signal.SIGKILL)
                except ProcessLookupError:
                    pass
            try:
                os.waitpid(w["pid"], 0)
            except ChildProcessError:
                pass
            w["state"] = "dead"

    def _global_fault(self):
        S = self.S
        f = S.plan.at_step(S.steps)
        if f is None:
            return
        kind = f["fault"][0]
        S.plan.fired.append(("step", S.steps, kind))
        parked = [i for i, w in enumerate(self.w) if w["state"] == "parked"]
        self._emit("global-fault", S.steps, kind, len(parked))
        if kind == "sys-kill":
            # the whole process tree is killed at this instant
            self._kill_all()
            self._emit("crash", "all", S.snap.delta())
            os._exit(_child.SYSKILL_EXIT)
        if kind == "owner-kill":
            # only the owner dies: nothing is dispatched or delivered any more; every busy worker
            # runs its current task to the end (orphaned daemonic workers do), then exits
            while True:
                acts = [["step", i] for i, w in enumerate(self.w) if w["state"] == "parked"]
                if not acts:
                    break
                act = S.decider.choose(acts)
                S.steps += 1
                self._emit("sched", S.steps, act)
                self._do(act)
            self._kill_all()
            self._emit("crash", "owner", S.snap.delta())
            os._exit(_child.SYSKILL_EXIT)
        if kind == "ctrl-c":
            # SIGINT to the foreground process group: every process gets KeyboardInterrupt
            for i in parked:
                S.steps += 1
                self._emit("sched", S.steps, ["step", i])
                self._do(["step", i], fault_override=["interrupt"])
            raise KeyboardInterrupt()

    def _advance(self, deliverable):
        """Run scheduler actions until the Decider picks one of the currently possible deliveries."""
        S = self.S
        while True:
            self._global_fault()
            opts = self._enabled() + deliverable()
            if not opts:
                self._emit("hang", S.steps)
                self._kill_all()
                self._emit("crash", "all", S.snap.delta())
                os._exit(_child.HANG_EXIT)
            if S.steps >= STEP_CAP:
                self._emit("step-cap", S.steps)
                self._kill_all()
                os._exit(_child.HARNESS_EXIT)
            act = S.decider.choose(opts)
            S.steps += 1
            self._emit("sched", S.steps, act)
            if act[0] == "deliver":
                return act
            if act[0] == "step":
                others = sum(1 for w in self.w if w["state"] == "parked")
                if others >= 2:
                    S.probe("two_workers_inside_io")
            self._do(act)

    def _submit(self, func, items, ordered, star=False, kwds=None):
        if self.closed or self.terminated:
            raise ValueError("Pool not running")
        items = list(items)
        job = _Job(len(self.jobs), len(items), ordered)
        self.jobs.append(job)
        for idx, it in enumerate(items):
            payload = pickle.dumps((func, it, kwds or {}, star))
            self.queue.append((job, idx, payload, self.ntask))
            self.ntask += 1
        self._emit("submit", job.jid, len(items), "imap" if ordered else "imap_unordered")
        return job

    def _gen(self, job):
        S = self.S
        while len(job.delivered) < job.n:

            def deliverable():
                if job.ordered:
                    nxt = len(job.delivered)
                    return [["deliver", job.jid, nxt]] if nxt in job.results else []
                return [["deliver", job.jid, t] for t in sorted(job.results) if t not in job.delivered]

            act = self._advance(deliverable)
            t = act[2]
            if job.delivered and t < max(job.delivered):
                S.probe("delivered_out_of_order")
            if any(k > t for k in job.results):
                S.probe("finished_out_of_submission_order")
            job.delivered.append(t)
            ok, val = job.results[t]
            if not ok:
                raise val
            yield val

    # ------------------------------------------------------------------ public API
    def imap(self, func, iterable, chunksize=1):
        return self._gen(self._submit(func, iterable, True))

    def imap_unordered(self, func, iterable, chunksize=1):
        return self._gen(self._submit(func, iterable, False))

    def map(self, func, iterable, chunksize=None):
        return self.map_async(func, iterable).get()

    def starmap(self, func, iterable, chunksize=None):
        return self.starmap_async(func, iterable).get()

    def map_async(self, func, iterable, chunksize=None, callback=None, error_callback=None):
        return AsyncResult(self, self._submit(func, iterable, True), False, callback, error_callback)

    def starmap_async(self, func, iterable, chunksize=None, callback=None, error_callback=None):
        return AsyncResult(self, self._submit(func, iterable, True, star=True), False, callback, error_callback)

    def apply_async(self, func, args=(), kwds=None, callback=None, error_callback=None):
        return AsyncResult(self, self._submit(func, [tuple(args)], True, star=True, kwds=kwds or {}), True, callback, error_callback)

    def apply(self, func, args=(), kwds=None):
        return self.apply_async(func, args, kwds).get()

    def close(self):
        self.closed = True

    def join(self):
        if not (self.closed or self.terminated):
            raise ValueError("Pool is still running")
        if self.terminated:
            return

        def joined():
            busy = any(w["state"] in ("parked", "running") for w in self.w)
            return [] if (self.queue and any(w["state"] != "dead" for w in self.w)) or busy else [["deliver", -1, "joined"]]

        self._advance(joined)
        self._shutdown()

    def _shutdown(self):
        for w in self.w:
            if w["state"] != "dead":
                try:
                    wire.send(w["tx"], ("exit",))
                except OSError:
                    pass
        self._kill_all()
        self._close_pipes()
        self.terminated = True

    def _close_pipes(self):
        for w in self.w:
            for k in ("tx", "rx"):
                if w[k] is not None:
                    try:
                        seams.REAL["os_close"](w[k])
                    except OSError:
                        pass
                    w[k] = None

    def terminate(self):
        """Pool.terminate(): SIGTERM reaches each worker wherever it is.  Any number of further I/O
        steps (chosen by the Decider) may still happen before the signal lands."""
        if self.terminated:
            return
        S = self.S
        while True:
            acts = [["step", i] for i, w in enumerate(self.w) if w["state"] == "parked"]
            act = S.decider.choose([["kill"]] + acts)
            S.steps += 1
            self._emit("sched", S.steps, act)
            if act[0] == "kill":
                break
            self._do(act)
        inside = sum(1 for w in self.w if w["state"] == "parked")
        if inside:
            S.probe("terminated_with_worker_parked_in_io", inside)
        self._kill_all()
        self._emit("terminate", S.steps, inside, S.snap.delta())
        self._close_pipes()
        self.queue = []
        self.terminated = True

    def __enter__(self):
        return self

    def __exit__(self, *a):
        self.terminate()

    def __reduce__(self):
        raise NotImplementedError("pool objects cannot be passed between processes or pickled")
