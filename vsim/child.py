"""Code that runs inside the forked "simulated vsg process" (and, via SimPool, in its workers)."""
import functools
import io
import os
import random
import sys
import traceback

from vsim import seams, wire
from vsim.decider import Decider, H

HANG_EXIT = 98
SYSKILL_EXIT = 99
HARNESS_EXIT = 97


class Recorder:
    """Streams history records to the judging parent; a record written survives os._exit."""

    def __init__(self, fd):
        self.fd = fd

    def emit(self, *rec):
        wire.send(self.fd, rec)


class LocalCtl:
    """Controller of the pool owner / the single process of a sequential run."""

    def __init__(self, rec, snap, plan):
        self.rec, self.snap, self.plan = rec, snap, plan
        self.task = "main"
        self.n = {"main": 0}
        self.cur = None

    def task_begin(self, tIndexFileName):
        idx, name = tIndexFileName
        self.task = idx
        self.n[idx] = 0
        self.rec.emit("task-begin", "main", idx, name)

    def task_end(self):
        self.rec.emit("task-end", "main", self.task)
        self.task = "main"

    def before(self, kind, rel, extra):
        t = self.task
        self.n[t] = self.n.get(t, 0) + 1
        fault = self.plan.lookup(t, self.n[t], kind)
        self.cur = (t, self.n[t])
        self.rec.emit("op", "main", t, self.n[t], kind, rel, extra, fault)
        return fault

    def after(self, kind, rel, errname, performed):
        t, n = self.cur if self.cur else (self.task, 0)
        self.rec.emit("done", "main", t, n, kind, rel, errname, performed, self.snap.delta())

    def dying(self):
        self.rec.emit("crash", "main", self.snap.delta())

    def out(self, tag, text):
        self.rec.emit("out", "main", tag, text)


class WorkerCtl:
    """Controller inside a simulated pool worker: every operation is announced to the scheduler in
    the pool owner and the worker parks until the scheduler grants it (possibly with a fault)."""

    def __init__(self, wid, tx, rx):
        self.wid, self.tx, self.rx = wid, tx, rx

    def task_begin(self, tIndexFileName):
        wire.send(self.tx, ("mark", "task-begin", tIndexFileName[0], tIndexFileName[1]))

    def task_end(self):
        wire.send(self.tx, ("mark", "task-end", None, None))

    def before(self, kind, rel, extra):
        wire.send(self.tx, ("op", kind, rel, extra))
        try:
            return wire.recv(self.rx)
        except EOFError:
            os._exit(seams.CRASH_EXIT)

    def after(self, kind, rel, errname, performed):
        wire.send(self.tx, ("done", kind, rel, errname, performed))

    def dying(self):
        try:
            wire.send(self.tx, ("crash",))
        except OSError:
            pass

    def out(self, tag, text):
        wire.send(self.tx, ("out", tag, text))


class Tagged(io.TextIOBase):
    """stdout/stderr replacement: one ordered, tagged stream."""

    def __init__(self, tag):
        self.tag = tag

    encoding = "utf-8"

    def writable(self):
        return True

    def isatty(self):
        return False

    def write(self, s):
        if s:
            c = seams.CTX
            if c is not None:
                c.depth += 1
                try:
                    # the sandbox location is an accident of the harness: never part of a history
                    c.ctl.out(self.tag, s.replace(c.root, "").replace(c.root[:-1], "."))
                finally:
                    c.depth -= 1
        return len(s)

    def flush(self):
        pass


def excinfo(e):
    """Type, message and the vsg frames of an exception (paths relative to the tree, so that a
    known-finding signature can refer to them)."""
    frames = []
    for fr in traceback.extract_tb(e.__traceback__):
        fn = fr.filename.replace(os.sep, "/")
        if "/vsg/" in fn:
            frames.append("vsg/" + fn.split("/vsg/", 1)[1] + ":" + fr.name)
    msg = str(e)
    c = seams.CTX
    if c is not None:
        msg = msg.replace(c.root, "").replace(c.root[:-1], ".")
    return {"type": type(e).__name__, "msg": msg[:300], "frames": frames[-6:]}


class FakeClock:
    def __init__(self):
        self.t = 1_700_000_000.0

    def time(self):
        self.t += 1.0
        return self.t


class _FakeDatetimeModule:
    """Stand-in for the `datetime` module as seen by vsg.junit (simulated clock)."""

    def __init__(self, real, clock):
        self._real = real
        self._clock = clock
        mod = self

        class datetime(real.datetime):
            @classmethod
            def now(cls, tz=None):
                return real.datetime.fromtimestamp(mod._clock.time(), tz=real.timezone.utc).replace(tzinfo=None)

        self.datetime = datetime

    def __getattr__(self, k):
        return getattr(self._real, k)


def module_state():
    """Address-free rendering of the process-global mutable state of the vsg package: module
    globals and class attributes that are data (not functions, classes, modules)."""
    import types

    from vsim.api_engine import canon

    out = {}
    for name, mod in list(sys.modules.items()):
        if not (name == "vsg" or name.startswith("vsg.")) or mod is None:
            continue
        for k, v in list(vars(mod).items()):
            if k.startswith("__") or isinstance(v, (types.ModuleType, types.FunctionType)):
                continue
            if isinstance(v, type):
                if v.__module__ != name:
                    continue
                for ck, cv in list(vars(v).items()):
                    if ck.startswith("__") or callable(cv) or isinstance(cv, (staticmethod, classmethod, property)):
                        continue
                    out[name + "." + k + "::" + ck] = canon(cv)
                continue
            out[name + "." + k] = canon(v)
    return out


_STATE = {"base": None, "reported": ()}


def state_drift_probe(ctl, when):
    """Probe only (never a verdict): which process-global vsg state differs from what it was when
    this process took its first file?  A long-lived worker whose state drifts is where a result can
    start to depend on the files seen before."""
    try:
        cur = module_state()
    except Exception:
        return
    if _STATE["base"] is None:
        _STATE["base"] = cur
        return
    base = _STATE["base"]
    drift = tuple(sorted(k for k in set(cur) | set(base) if cur.get(k) != base.get(k)))
    if drift and drift != _STATE["reported"]:
        _STATE["reported"] = drift
        ctl.out("sim", "state-drift %s %s\n" % (when, " ".join(drift[:6])))


def install_task_wrapper():
    """In the warm parent: wrap vsg.apply_rules.apply_rules so that file-processing order and task
    boundaries are observable.  Pass-through without a simulation context."""
    import vsg.apply_rules as ar

    real = ar.apply_rules
    if getattr(real, "_vsim_wrapped", False):
        return

    @functools.wraps(real)
    def apply_rules(commandLineArguments, oConfig, tIndexFileName):
        c = seams.CTX
        if c is None or not hasattr(c.ctl, "task_begin"):
            return real(commandLineArguments, oConfig, tIndexFileName)
        try:
            c.ctl.task_begin(tIndexFileName)
        except Exception:
            return real(commandLineArguments, oConfig, tIndexFileName)
        c.depth += 1
        try:
            state_drift_probe(c.ctl, "before:%s" % (tIndexFileName[1],))
        finally:
            c.depth -= 1
        try:
            return real(commandLineArguments, oConfig, tIndexFileName)
        finally:
            c.depth += 1
            try:
                state_drift_probe(c.ctl, "after:%s" % (tIndexFileName[1],))
            finally:
                c.depth -= 1
            c.ctl.task_end()

    apply_rules._vsim_wrapped = True
    ar.apply_rules = apply_rules


def reference_lines(data):
    """What 'the lines that were read' are, computed independently of the tree: UTF-8 with
    ISO-8859-1 fallback, universal newlines, no line terminators."""
    try:
        s = data.decode("utf-8")
    except UnicodeDecodeError:
        s = data.decode("ISO-8859-1")
    s = s.replace("\r\n", "\n").replace("\r", "\n")
    lines = s.split("\n")
    if lines and lines[-1] == "":
        lines.pop()
    return lines


_READS = {}


def install_lossless_monitor():
    """By-product monitor for C04 clauses 1-2 on the read seam (not part of the claim): for every
    named file a simulated process reads and accepts, the model built from it must emit exactly
    the lines that are in the sandbox (emit(parse(x)) == x), every line must survive
    tokenize-and-join, and no token may stay unclassified.  Pass-through without a context."""
    import vsg.vhdlFile  # noqa
    from vsg import parser, tokens

    vu = sys.modules["vsg.vhdlFile.utils"]
    vf = sys.modules["vsg.vhdlFile.vhdlFile"]
    real_read = vu.read_vhdlfile
    if getattr(real_read, "_vsim_wrapped", False):
        return

    def raw(name):
        c = seams.CTX
        c.depth += 1
        try:
            with open(name, "rb") as fh:
                return fh.read()
        except OSError:
            return None
        finally:
            c.depth -= 1

    @functools.wraps(real_read)
    def read_vhdlfile(sFileName, *a, **kw):
        c = seams.CTX
        if c is None or sFileName == "stdin" or not isinstance(sFileName, str):
            return real_read(sFileName, *a, **kw)
        b1 = raw(sFileName)
        r = real_read(sFileName, *a, **kw)
        b2 = raw(sFileName)
        # only when nobody replaced the file while this process was parked inside the read
        _READS[sFileName] = b1 if (b1 is not None and b1 == b2) else None
        return r

    read_vhdlfile._vsim_wrapped = True
    vu.read_vhdlfile = read_vhdlfile
    real_init = vf.vhdlFile.__init__

    @functools.wraps(real_init)
    def __init__(self, *a, **kw):
        real_init(self, *a, **kw)
        c = seams.CTX
        if c is None:
            return
        name = getattr(self, "filename", None)
        data = _READS.pop(name, None) if isinstance(name, str) else None
        if data is None or getattr(self, "eError", None) is not None:
            return
        c.depth += 1
        try:
            want = reference_lines(data)
            got = self.get_lines()[1:]
            bad = None
            if got != want:
                i = 0
                while i < min(len(got), len(want)) and got[i] == want[i]:
                    i += 1
                bad = "emit(parse(x)) != x at line %d of %d/%d: got %r want %r" % (i + 1, len(got), len(want), (got[i] if i < len(got) else None), (want[i] if i < len(want) else None))
            else:
                for i, ln in enumerate(want):
                    if "".join(tokens.create(ln)) != ln:
                        bad = "join(tokenize(s)) != s at line %d: %r" % (i + 1, ln[:120])
                        break
                forced = bool(getattr(getattr(self, "commandLineArguments", None), "force_fix", False))
                if bad is None and not forced:  # --force_fix goes on with a file that did not parse
                    for o in self.lAllObjects:
                        if type(o) is parser.item:
                            bad = "unclassified token %r" % (o.get_value()[:40],)
                            break
            if bad:
                c.ctl.out("sim", "lossless-fail %s %s\n" % (name, bad[:400]))
            else:
                c.ctl.out("sim", "lossless-ok %s\n" % (name,))
        except Exception as e:  # the monitor must never disturb the run
            c.ctl.out("sim", "lossless-monitor-error %s %r\n" % (name, e))
        finally:
            c.depth -= 1

    vf.vhdlFile.__init__ = __init__


def install_update_raise(k):
    """Inject an exception at the k-th vhdlFile.update call (= end of the k-th Rule.fix that did
    something): 'a rule raising' in the middle of the in-memory fix."""
    import vsg.vhdlFile  # noqa

    vf = sys.modules["vsg.vhdlFile.vhdlFile"]
    real = vf.vhdlFile.update
    state = {"n": 0}

    def update(self, lUpdates, *a, **kw):
        if len(lUpdates) == 0:
            return real(self, lUpdates, *a, **kw)
        state["n"] += 1
        if state["n"] == k:
            c = seams.CTX
            if c is not None:
                c.ctl.out("sim", "raise-at-update %d\n" % k)
            raise RuntimeError("vsim: injected rule failure at update #%d" % k)
        return real(self, lUpdates, *a, **kw)

    vf.vhdlFile.update = update
    return state


def install_fixer_probe():
    """Harness-side probe (no repo change): report every rule whose fix() actually fixed something
    (had_violations) through the history, so that an oracle can tell *who* caused a write-back."""
    import vsg.rule

    real = vsg.rule.Rule.fix
    if getattr(real, "_vsim_probe", False):
        return

    def fix(self, oFile, dFixOnly=None):
        before = self.had_violations
        r = real(self, oFile, dFixOnly)
        if self.had_violations and not before:
            c = seams.CTX
            if c is not None:
                c.depth += 1
                try:
                    c.ctl.out("sim", "fixer %s %s\n" % (self.unique_id, getattr(oFile, "filename", "?")))
                finally:
                    c.depth -= 1
        return r

    fix._vsim_probe = True
    vsg.rule.Rule.fix = fix


def prepare_process(desc, ctx, who):
    """Common per-process set-up (owner and workers)."""
    seed = H(desc["run_seed"], "names", who)
    seams.activate(ctx, seed)
    sys.stdout = Tagged("o")
    sys.stderr = Tagged("e")


def run_cli(desc, root, rec):
    """Engine 'cli': the real vsg.__main__.main() under the seams."""
    import datetime as real_datetime
    import platform
    import time

    from vsim import simpool

    snap = wire.Snapshotter(root)
    snap.delta()
    plan = wire.Plan(desc.get("faults"))
    ctl = LocalCtl(rec, snap, plan)
    ctx = seams.Ctx(root, ctl, cpu_count=desc.get("cpu_count", 2), dir_rng=desc.get("dirsalt", 0))
    decider = Decider(desc.get("sched_seed", 0), desc.get("decisions"), desc.get("policy"))
    simpool.SIM = simpool.SimState(desc=desc, rec=rec, snap=snap, plan=plan, decider=decider, root=root)

    # environment
    for k in list(os.environ):
        if k.startswith("VSG") or k in ("PYTHONSTARTUP",):
            del os.environ[k]
    os.environ["HOME"] = root
    os.environ["LANG"] = "C.UTF-8"
    for k, v in (desc.get("env") or {}).items():
        os.environ[k] = v
    clock = FakeClock()
    time.time = clock.time
    time.monotonic = clock.time
    platform.uname = lambda: ("Linux", "simhost", "0", "0", "x86_64", "")
    import vsg.junit

    vsg.junit.datetime = _FakeDatetimeModule(real_datetime, clock)

    if desc.get("stdin_b64") is not None:
        import base64

        # like the real sys.stdin: a text wrapper in universal-newline mode over the piped bytes
        sys.stdin = io.TextIOWrapper(io.BytesIO(base64.b64decode(desc["stdin_b64"])), encoding="utf-8")
    elif desc.get("stdin") is not None:
        sys.stdin = io.StringIO(desc["stdin"])
    sys.argv = ["vsg"] + list(desc["argv"])
    upd = None
    if desc.get("raise_at_update"):
        upd = install_update_raise(int(desc["raise_at_update"]))

    if desc.get("probe_fixers"):
        install_fixer_probe()
    tracer = None
    if desc.get("interrupt_line"):
        from vsim import linetrace

        tracer = linetrace.install(int(desc["interrupt_line"]), ctl)

    prepare_process(desc, ctx, "main")
    import vsg.__main__ as m

    code, exc = None, None
    try:
        m.main()
    except SystemExit as e:
        code = e.code
    except BaseException as e:  # noqa
        exc = excinfo(e)
    finally:
        if tracer is not None:
            sys.settrace(None)
    end = {
        "exit": code,
        "exc": exc,
        "trace": decider.trace,
        "mismatch": decider.mismatch,
        "policy": decider.policy,
        "fired": plan.fired,
        "skipped": plan.skipped,
        "unsimulated": ctx.unsimulated,
        "updates": upd["n"] if upd else None,
        "lines": tracer.count if tracer else None,
        "probes": simpool.SIM.probes,
    }
    ctx.depth += 1
    rec.emit("end", end)


ENGINES = {"cli": run_cli}


def child_main(desc, root, hist_fd):
    try:
        os.setsid()
    except OSError:
        pass
    rec = Recorder(hist_fd)
    try:
        os.chdir(root)
        os.umask(int(desc.get("umask", "022"), 8))
        eng = desc.get("engine", "cli")
        if eng not in ENGINES:
            if eng == "api":
                from vsim import api_engine  # registers itself

                ENGINES["api"] = api_engine.run_api
        ENGINES[eng](desc, root, rec)
        code = 0
    except BaseException as e:  # harness failure inside the child
        try:
            seams.deactivate()
            rec.emit("harness-error", "".join(traceback.format_exception(type(e), e, e.__traceback__))[-3000:])
        except Exception:
            pass
        code = HARNESS_EXIT
    os._exit(code)
