"""A shard: one fresh interpreter (started with the PYTHONHASHSEED of its class) that installs the
seams, imports vsg once and then serves jobs, forking one simulated vsg process per run.

  --shard     JSON job per line on stdin -> JSON result per line on the protocol fd (the original
              stdout; fd 1 is re-pointed at stderr so stray prints cannot corrupt the protocol)
  --executor  helper mode: pickled (desc, keep_files) frames in, pickled result frames out
"""
import importlib
import json
import os
import sys
import traceback

HERE = os.path.dirname(os.path.dirname(os.path.abspath(__file__)))
if HERE not in sys.path:
    sys.path.insert(0, HERE)


def main():
    mode = sys.argv[1]
    proto_fd = os.dup(1)
    os.dup2(2, 1)
    from vsim import runner, wire

    ex = runner.Executor()
    try:
        if mode == "--executor":
            while True:
                try:
                    desc, keep = wire.recv(0)
                except EOFError:
                    break
                wire.send(proto_fd, ex.run(desc, keep_files=keep))
            return
        from vsim.props import common

        alt = None
        if os.environ.get("VSIM_ALT_HASHSEED"):
            alt = runner.RemoteExecutor(os.environ["VSIM_ALT_HASHSEED"])
        env = common.Env(ex, alt)
        out = os.fdopen(proto_fd, "w")
        out.write(json.dumps({"ready": True, "hashseed": os.environ.get("PYTHONHASHSEED")}) + "\n")
        out.flush()
        nshrunk = 0
        for line in sys.stdin:
            line = line.strip()
            if not line:
                continue
            job = json.loads(line)
            try:
                mod = importlib.import_module("vsim.props." + job["prop"].lower())
                if job.get("mode") == "replay":
                    res = mod.replay_job(job, env)
                else:
                    res = mod.run_job(job, env)
                    if res["violations"] and not job.get("noshrink"):
                        from vsim import shrink

                        # minimisation is expensive: a shard minimises the first two violations it
                        # meets in full, later ones are passed on as found
                        from vsim import known

                        kf = known.load()
                        vs = []
                        for v in res["violations"][:3]:
                            if all(known.match(kf, job["prop"], v["desc"], x) for x in v["violations"]):
                                vs.append(v)  # a recorded finding: nothing to minimise
                            elif nshrunk < 2:
                                nshrunk += 1
                                vs.append(shrink.minimize(mod, v, env))
                            else:
                                vs.append(v)
                        res["violations"] = vs
            except BaseException as e:  # harness failure: reported, never a verdict
                res = {"job": job, "fatal": "".join(traceback.format_exception(type(e), e, e.__traceback__))[-4000:]}
            env.trim_cache()
            out.write(json.dumps(res, default=str) + "\n")
            out.flush()
        if alt is not None:
            alt.close()
    finally:
        ex.close()


if __name__ == "__main__":
    main()
